// compiled by checks/c17.py at several DWARF versions
namespace ns { inline namespace v1 { int q; } struct B { virtual ~B(); virtual int f() const = 0; int b; }; }
struct D : ns::B { int f() const override { return b + 1; } static constexpr int k = 7; int ns::B::*pm = &ns::B::b; };
template <int N, typename T> struct TT { T a[N]; T get(int i) const { return a[i]; } };
enum class EC : short { A = -1, Z = 2 };
TT<3, char> tt; EC ec = EC::Z; D d;
auto lam = [](int x, EC e) { return x + static_cast<int>(e); };
int call(int x) { try { if (x) throw 1; } catch (int i) { return lam(i, ec); } return tt.get(x) + d.f(); }
decltype(nullptr) np; int &&rr = static_cast<int &&>(d.b); void (D::*mf)() = nullptr;
