/* compiled by checks/c17.py at several DWARF versions: what a compiler writes, as opposed to the generator */
#include <stddef.h>
extern int ext(int *);
struct S { long a; double d; unsigned bf:3, bg:5; char name[12]; };
union U { int i; float f; };
enum E { E_NEG = -1, E_ZERO, E_BIG = 0x7fffffff };
typedef const volatile struct S cvS;
static int __attribute__((noinline)) h(int x, struct S s) { return x + (int) s.d + s.bf; }
int k(int a, int b, struct S *p) { int v = a; int *q = &v; long r = ext(&b); r += h(a, *p); a = a * 3; r += ext(&a); return (int)(r + *q); }
double cv(long x, unsigned char c) { double y = x; float z = c; return y * 2 + z; }
int vla(int n) { int arr[n]; arr[0] = n; return ext(arr); }
static inline int il(int a) { return a + 1; }
int use(int z, enum E e, union U u) { if (z) return il(z) + e; return il(u.i); }
__thread int tls_var;
int g_init = 3; const char *msg = "hello"; cvS gs; int (*fp)(int, enum E, union U) = use;
_Noreturn void die(void);
long long wide(long long a, __int128 b) { return a + (long long) (b >> 70); }
