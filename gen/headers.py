"""Independent reading of the DWARF / ELF constant tables from the system headers."""
import re


def parse_header(path):
    """name -> int for enum entries `NAME = value,` and `#define NAME value`."""
    out = {}
    txt = open(path, encoding="latin-1").read()
    txt = re.sub(r"/\*.*?\*/", " ", txt, flags=re.S)
    for m in re.finditer(r"^\s*([A-Za-z_][A-Za-z0-9_]*)\s*=\s*(0[xX][0-9a-fA-F]+|\d+)\s*,?", txt, re.M):
        out[m.group(1)] = int(m.group(2), 0)
    for m in re.finditer(r"^\s*#\s*define\s+([A-Za-z_][A-Za-z0-9_]*)\s+(0[xX][0-9a-fA-F]+|\d+)\s*$", txt, re.M):
        out.setdefault(m.group(1), int(m.group(2), 0))
    # enum entries defined by another entry: NAME = OTHER,
    for _ in range(3):
        for m in re.finditer(r"^\s*([A-Za-z_][A-Za-z0-9_]*)\s*=\s*([A-Za-z_][A-Za-z0-9_]*)\s*,?", txt, re.M):
            if m.group(2) in out:
                out.setdefault(m.group(1), out[m.group(2)])
    return out


def dwarf_constants():
    return parse_header("/usr/include/dwarf.h")


def elf_constants():
    return parse_header("/usr/include/elf.h")
