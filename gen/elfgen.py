"""Minimal ELF64 relocatable object writer with an arbitrary symbol table, and an independent reader."""
import struct

EM = {"x86_64": 62, "arm": 40, "sparc": 2, "mips": 8, "ppc64": 21, "parisc": 15, "unknown": 0x1234}


def write_obj(path, machine, syms, big_endian=False):
    """syms: list of dicts name, value, size, type, bind, vis, shndx (0 undef, 0xfff1 abs, 1 .text); the null symbol
    is added in front.  Locals must precede globals for a well-formed file; this writer does not reorder."""
    e = ">" if big_endian else "<"
    shstr = b"\0.text\0.symtab\0.strtab\0.shstrtab\0"
    names = b"\0"
    entries = [struct.pack(e + "IBBHQQ", 0, 0, 0, 0, 0, 0)]
    first_global = None
    for i, s in enumerate(syms):
        nm = s["name"].encode("latin-1") if isinstance(s["name"], str) else s["name"]
        off = len(names) if nm else 0
        if nm:
            names += nm + b"\0"
        info = (s["bind"] << 4) | (s["type"] & 0xf)
        if s["bind"] != 0 and first_global is None:
            first_global = i + 1
        entries.append(struct.pack(e + "IBBHQQ", off, info, (s["vis"] & 3) | (s.get("other", 0) & 0xfc), s.get("shndx", 1), s["value"] & (2**64 - 1), s["size"] & (2**64 - 1)))
    if first_global is None:
        first_global = len(entries)
    text = b"\x90" * 16
    symtab = b"".join(entries)
    # layout
    off = 64
    text_off = off; off += len(text)
    sym_off = (off + 7) & ~7; pad1 = sym_off - off; off = sym_off + len(symtab)
    str_off = off; off += len(names)
    shstr_off = off; off += len(shstr)
    sh_off = (off + 7) & ~7; pad2 = sh_off - off
    def sh(name, typ, flags, offset, size, link=0, info=0, align=1, entsize=0):
        return struct.pack(e + "IIQQQQIIQQ", name, typ, flags, 0, offset, size, link, info, align, entsize)
    sections = [sh(0, 0, 0, 0, 0, align=0),
                sh(1, 1, 6, text_off, len(text), align=16),                       # .text PROGBITS AX
                sh(7, 2, 0, sym_off, len(symtab), link=3, info=first_global, align=8, entsize=24),
                sh(15, 3, 0, str_off, len(names)),
                sh(23, 3, 0, shstr_off, len(shstr))]
    ident = b"\x7fELF" + bytes([2, 2 if big_endian else 1, 1, 0]) + b"\0" * 8
    hdr = ident + struct.pack(e + "HHIQQQIHHHHHH", 1, EM[machine] if isinstance(machine, str) else machine, 1, 0, 0, sh_off, 0, 64, 0, 0, 64,
                              len(sections), 4)
    with open(path, "wb") as f:
        f.write(hdr + text + b"\0" * pad1 + symtab + names + shstr + b"\0" * pad2 + b"".join(sections))


def read_symtab(path):
    """Independent pure-python reader of .symtab: list of dicts in table order."""
    d = open(path, "rb").read()
    e = ">" if d[5] == 2 else "<"
    is64 = d[4] == 2
    if is64:
        shoff, = struct.unpack_from(e + "Q", d, 0x28)
        shentsize, shnum, shstrndx = struct.unpack_from(e + "HHH", d, 0x3a)
    else:
        shoff, = struct.unpack_from(e + "I", d, 0x20)
        shentsize, shnum, shstrndx = struct.unpack_from(e + "HHH", d, 0x2e)
    secs = []
    for i in range(shnum):
        o = shoff + i * shentsize
        if is64:
            name, typ, flags, addr, off, size, link, info, align, entsize = struct.unpack_from(e + "IIQQQQIIQQ", d, o)
        else:
            name, typ, flags, addr, off, size, link, info, align, entsize = struct.unpack_from(e + "IIIIIIIIII", d, o)
        secs.append({"type": typ, "off": off, "size": size, "link": link, "entsize": entsize})
    out = []
    for s in secs:
        if s["type"] != 2:
            continue
        strtab = secs[s["link"]]
        n = s["size"] // s["entsize"]
        for i in range(n):
            o = s["off"] + i * s["entsize"]
            if is64:
                nm, info, other, shndx, value, size = struct.unpack_from(e + "IBBHQQ", d, o)
            else:
                nm, value, size, info, other, shndx = struct.unpack_from(e + "IIIBBH", d, o)
            end = d.index(b"\0", strtab["off"] + nm)
            out.append({"name": d[strtab["off"] + nm:end], "value": value, "size": size, "type": info & 0xf, "bind": info >> 4,
                        "vis": other & 3, "shndx": shndx})
    return out, struct.unpack_from(e + "H", d, 18)[0]
