"""Forest model -> assembler source -> ELF object with hand-made .debug_info/.debug_abbrev.

forest = {"units": [unit, ...], "loclists": optional}
unit   = {"kind": "cu" | "pu", "version": 2..5, "table": abbrev table group (units with the same group share
          one abbreviation table), "root": die}
die    = {"id": int, "tag": int, "children": [die...], "has_children": bool (what the abbreviation claims;
          default: there are children), "attrs": [attr...]}
attr   = {"name": int, "form": str, "value": ...}   forms: data1 data2 data4 data8 sdata udata string flag
          flag_present addr ref4 ref_udata ref_addr sec_offset exprloc block1 implicit_const strp
          indirect:<form> loclist (v2-4: sec_offset into .debug_loc, value = [(lo, hi, [ops]), ...])
          rangelist (value = [(lo, hi), ...]); in a version 5 unit loclist / rangelist go to .debug_loclists /
          .debug_rnglists, and there are the indexed forms strx strx1-4 (value = bytes), addrx addrx1-4 (value =
          address), rnglistx (value = [(lo, hi), ...] or [(kind, a, b), ...] with the DW_RLE_ kinds start_end
          start_length offset_pair base_address startx_endx startx_length base_addressx), loclistx (value =
          [(lo, hi, ops), ...] or [(kind, a, b, ops), ...] with the DW_LLE_ kinds, default_location among them),
          line_strp, data16 (value = 16 bytes); the unit's root gets the DW_AT_*_base attributes it needs
ops    = [(opcode, [operands...]), ...]

No relocations are needed: every cross reference is a difference of two labels of one section.
Each DIE gets a global symbol die_<id> in .debug_info so that its offset can be read back.
"""
import os, subprocess, struct

FORM = {"addr": 0x01, "block2": 0x03, "block4": 0x04, "data2": 0x05, "data4": 0x06, "data8": 0x07, "string": 0x08,
        "block": 0x09, "block1": 0x0a, "data1": 0x0b, "flag": 0x0c, "sdata": 0x0d, "strp": 0x0e, "udata": 0x0f,
        "ref_addr": 0x10, "ref1": 0x11, "ref2": 0x12, "ref4": 0x13, "ref8": 0x14, "ref_udata": 0x15, "indirect": 0x16,
        "sec_offset": 0x17, "exprloc": 0x18, "flag_present": 0x19, "implicit_const": 0x21,
        "strx": 0x1a, "addrx": 0x1b, "data16": 0x1e, "line_strp": 0x1f, "loclistx": 0x22, "rnglistx": 0x23,
        "strx1": 0x25, "strx2": 0x26, "strx3": 0x27, "strx4": 0x28, "addrx1": 0x29, "addrx2": 0x2a, "addrx3": 0x2b, "addrx4": 0x2c,
        "GNU_addr_index": 0x1f01, "GNU_str_index": 0x1f02, "GNU_ref_alt": 0x1f20, "GNU_strp_alt": 0x1f21}

# operand encodings of the location operations we generate
OPS = {
    0x03: ["a8"],            # addr
    0x08: ["u1"], 0x09: ["s1"], 0x0a: ["u2"], 0x0b: ["s2"], 0x0c: ["u4"], 0x0d: ["s4"], 0x0e: ["u8"], 0x0f: ["s8"],
    0x10: ["uleb"], 0x11: ["sleb"],          # constu consts
    0x12: [], 0x13: [], 0x06: [], 0x22: [], 0x1c: [], 0x9f: [], 0x96: [], 0x9c: [],   # dup drop deref plus minus stack_value nop call_frame_cfa
    0x23: ["uleb"],          # plus_uconst
    0x90: ["uleb"],          # regx
    0x91: ["sleb"],          # fbreg
    0x92: ["uleb", "sleb"],  # bregx
    0x93: ["uleb"],          # piece
    0x9d: ["uleb", "uleb"],  # bit_piece
    0x94: ["u1"],            # deref_size
    0x9e: ["block"],         # implicit_value
    0x28: ["s2"], 0x2f: ["s2"],      # bra skip
    0xf3: ["nested"],        # GNU_entry_value
    0xa3: ["nested"],        # entry_value (DWARF 5)
    0x98: ["u2ref"], 0x99: ["u4ref"],  # call2 call4 (CU relative DIE reference)
    0xf2: ["refaddr", "sleb"],       # GNU_implicit_pointer
    0xa0: ["refaddr", "sleb"],       # implicit_pointer
    0xa1: ["uleb"], 0xa2: ["uleb"], 0xfb: ["uleb"], 0xfc: ["uleb"],      # addrx constx GNU_addr_index GNU_const_index
    0xa4: ["ulebref", "szblock"], 0xf4: ["ulebref", "szblock"],          # const_type GNU_const_type
    0xa5: ["uleb", "ulebref"], 0xf5: ["uleb", "ulebref"],                # regval_type
    0xa6: ["u1", "ulebref"], 0xf6: ["u1", "ulebref"], 0xa7: ["u1", "ulebref"],    # deref_type xderef_type
    0xa8: ["ulebref"], 0xa9: ["ulebref"], 0xf7: ["ulebref"], 0xf9: ["ulebref"],   # convert reinterpret
    0xfa: ["u4ref"],                 # GNU_parameter_ref
}
for _c in (0x14, 0x16, 0x17, 0x18, 0x19, 0x1a, 0x1b, 0x1d, 0x1e, 0x1f, 0x20, 0x21, 0x24, 0x25, 0x26, 0x27,
           0x29, 0x2a, 0x2b, 0x2c, 0x2d, 0x2e, 0x97, 0x9b, 0xe0, 0xf0):
    OPS[_c] = []                 # over swap rot xderef abs and div mod mul neg not or shl shr shra xor eq..ne ...
OPS[0x15] = ["u1"]               # pick
OPS[0x95] = ["u1"]               # xderef_size
for _r in range(32):
    OPS[0x30 + _r] = []          # lit0..31
    OPS[0x50 + _r] = []          # reg0..31
    OPS[0x70 + _r] = ["sleb"]    # breg0..31


class Asm:
    def __init__(self):
        self.lines = []

    def emit(self, s):
        self.lines.append("\t" + s)

    def label(self, l, glob=False):
        if glob:
            self.lines.append("\t.globl " + l)
        self.lines.append(l + ":")


def _expr(a, ops, cu_label, info_base, uniq):
    for i, (op, args) in enumerate(ops):
        a.label(".Lop_%s_%d" % (uniq, i))
        a.emit(".byte %#x" % op)
        for kind, v in zip(OPS[op], args):
            if kind == "a8": a.emit(".quad %d" % v)
            elif kind in ("u1", "s1"): a.emit(".byte %d" % (v & 0xff))
            elif kind in ("u2", "s2"): a.emit(".value %d" % (v & 0xffff))
            elif kind in ("u4", "s4"): a.emit(".long %d" % (v & 0xffffffff))
            elif kind in ("u8", "s8"): a.emit(".quad %d" % (v & 0xffffffffffffffff))
            elif kind == "uleb": a.emit(".uleb128 %d" % v)
            elif kind == "sleb": a.emit(".sleb128 %d" % v)
            elif kind == "block":
                a.emit(".uleb128 %d" % len(v))
                for b in v: a.emit(".byte %d" % b)
            elif kind == "nested":
                a.emit(".uleb128 .Lnest_%s_%d_e - .Lnest_%s_%d_s" % (uniq, i, uniq, i))
                a.label(".Lnest_%s_%d_s" % (uniq, i))
                _expr(a, v, cu_label, info_base, "%s_%dn" % (uniq, i))
                a.label(".Lnest_%s_%d_e" % (uniq, i))
            elif kind == "ulebref": a.emit(".uleb128 die_%d - %s" % (v, cu_label))
            elif kind == "szblock":
                a.emit(".byte %d" % len(v))
                for b in v: a.emit(".byte %d" % b)
            elif kind == "u2ref": a.emit(".value die_%d - %s" % (v, cu_label))
            elif kind == "u4ref": a.emit(".long die_%d - %s" % (v, cu_label))
            elif kind == "refaddr": a.emit(".long die_%d - %s" % (v, info_base))


def _list_entries(d):
    """All entries of the range / location lists below a DIE (to see whether they use the address table)."""
    for at in d["attrs"]:
        if at["form"].split(":")[-1] in ("rnglistx", "loclistx", "rangelist", "loclist") and isinstance(at.get("value"), (list, tuple)):
            for e in at["value"]:
                yield tuple(e)
    for c in d["children"]:
        yield from _list_entries(c)


def generate(forest, path_s):
    """Writes assembler source.  Returns the list of abbreviation tables as built:
    [{"group": g, "abbrevs": [{"code", "tag", "children", "attrs": [(name, form, implicit)]}]}]"""
    a = Asm()
    units = forest["units"]
    groups = []
    for u in units:
        if u.get("table", id(u)) not in groups:
            groups.append(u.get("table", id(u)))
    tables = {g: {"group": g, "abbrevs": [], "index": {}} for g in groups}
    order = forest.get("table_order", groups)          # order of the tables in .debug_abbrev

    def spec_of(d, version):
        attrs = []
        for at in d["attrs"]:
            f = at["form"]
            if f.startswith("indirect:"):
                attrs.append((at["name"], "indirect", None))
            elif f == "implicit_const":
                attrs.append((at["name"], "implicit_const", at["value"]))
            elif f in ("loclist", "rangelist", "sec_label"):
                attrs.append((at["name"], "sec_offset" if version >= 4 else "data4", None))
            else:
                attrs.append((at["name"], f, None))
        hc = d.get("has_children", bool(d["children"]))
        return (d["tag"], bool(hc), tuple(attrs))

    def code_for(tab, d, version):
        sp = spec_of(d, version)
        force_new = d.get("own_abbrev", False)
        if sp in tab["index"] and not force_new:
            return tab["index"][sp]
        code = len(tab["abbrevs"]) + 1
        tab["abbrevs"].append({"code": code, "tag": sp[0], "children": sp[1], "attrs": list(sp[2])})
        tab["index"][sp] = code
        return code

    loc_entries = []
    range_entries = []
    v5 = {}            # unit index -> {"strx": [bytes], "addrx": [addr], "rnglists": [(uniq, value, indexed)], "loclists": [...]}
    line_strs = []

    def v5tab(ui):
        return v5.setdefault(ui, {"strx": [], "addrx": [], "rnglists": [], "loclists": []})

    def index_of(lst, v):
        if v not in lst:
            lst.append(v)
        return lst.index(v)

    def emit_index(f, idx):
        w = f[-1]
        if w == "x": a.emit(".uleb128 %d" % idx)          # strx, addrx, GNU_str_index, GNU_addr_index
        elif w == "1": a.emit(".byte %d" % idx)
        elif w == "2": a.emit(".value %d" % idx)
        elif w == "3": a.emit(".byte %d, %d, %d" % (idx & 0xff, (idx >> 8) & 0xff, (idx >> 16) & 0xff))
        elif w == "4": a.emit(".long %d" % idx)

    def uses(d, pred):
        return any(pred(at["form"].split(":")[-1]) for at in d["attrs"]) or any(uses(c, pred) for c in d["children"])

    def emit_die(d, u, ui, cu_label):
        tab = tables[u.get("table", id(u))]
        code = code_for(tab, d, u["version"])
        a.label("die_%d" % d["id"], glob=True)
        a.emit(".uleb128 %d" % code)
        for ai, at in enumerate(d["attrs"]):
            f, v = at["form"], at.get("value")
            uniq = "%d_%d" % (d["id"], ai)
            if f.startswith("indirect:"):
                f = f.split(":", 1)[1]
                a.emit(".uleb128 %#x" % FORM[f])
            if f == "data1": a.emit(".byte %d" % (v & 0xff))
            elif f == "data2": a.emit(".value %d" % (v & 0xffff))
            elif f == "data4": a.emit(".long %d" % (v & 0xffffffff))
            elif f == "data8": a.emit(".quad %d" % (v & 0xffffffffffffffff))
            elif f == "sdata": a.emit(".sleb128 %d" % v)
            elif f == "udata": a.emit(".uleb128 %d" % v)
            elif f == "string":
                bs = v if isinstance(v, (bytes, bytearray)) else v.encode("latin-1")
                for b in bs: a.emit(".byte %d" % b)
                a.emit(".byte 0")
            elif f == "strp": a.emit(".long .Lstr_%s - .Ldebug_str0" % uniq); forest.setdefault("_strs", []).append((uniq, v))
            elif f == "flag": a.emit(".byte %d" % v)
            elif f == "flag_present": pass
            elif f == "implicit_const": pass
            elif f == "addr": a.emit(".quad %d" % v)
            elif f == "ref4": a.emit(".long die_%d - %s" % (v, cu_label))
            elif f == "ref_udata": a.emit(".uleb128 die_%d - %s" % (v, cu_label))
            elif f == "ref_addr":
                if u["version"] == 2: a.emit(".quad die_%d - .Ldebug_info0" % v)
                else: a.emit(".long die_%d - .Ldebug_info0" % v)
            elif f == "GNU_strp_alt":
                # a string of the alt file's .debug_str: the value names a DIE of the alt file whose first strp
                # attribute holds the string (its offset is read from the assembled alt file)
                a.emit(".long %d" % forest["_alt_strs"][v])
            elif f == "GNU_ref_alt":
                # a DIE of the dwz alt file, by its offset in that file's .debug_info
                a.emit(".long %d" % forest["_alt_offsets"]["die_%d" % v])
            elif f == "sec_offset": a.emit(".long %d" % v)
            elif f in ("exprloc", "block1"):
                if f == "exprloc": a.emit(".uleb128 .Lexpr_%s_e - .Lexpr_%s_s" % (uniq, uniq))
                else: a.emit(".byte .Lexpr_%s_e - .Lexpr_%s_s" % (uniq, uniq))
                a.label(".Lexpr_%s_s" % uniq)
                if v and isinstance(v[0], int):
                    for b in v: a.emit(".byte %d" % b)
                else:
                    _expr(a, v, cu_label, ".Ldebug_info0", uniq)
                a.label(".Lexpr_%s_e" % uniq)
            elif f == "loclist" and u["version"] >= 5:
                a.emit(".long .Lll_%s - .Ldebug_loclists0" % uniq)
                v5tab(ui)["loclists"].append((uniq, v, False, cu_label))
            elif f == "rangelist" and u["version"] >= 5:
                a.emit(".long .Lrl_%s - .Ldebug_rnglists0" % uniq)
                v5tab(ui)["rnglists"].append((uniq, v, False, cu_label))
            elif f == "loclist":
                a.emit(".long .Lloc_%s - .Ldebug_loc0" % uniq)
                loc_entries.append((uniq, v, cu_label))
            elif f == "rangelist":
                a.emit(".long .Lrng_%s - .Ldebug_ranges0" % uniq)
                range_entries.append((uniq, v))
            elif f in ("strx", "strx1", "strx2", "strx3", "strx4", "GNU_str_index"):
                bs = v if isinstance(v, (bytes, bytearray)) else v.encode("latin-1")
                emit_index(f, index_of(v5tab(ui)["strx"], bytes(bs)))
            elif f in ("addrx", "addrx1", "addrx2", "addrx3", "addrx4", "GNU_addr_index"):
                emit_index(f, index_of(v5tab(ui)["addrx"], v))
            elif f == "rnglistx":
                t = v5tab(ui)["rnglists"]
                a.emit(".uleb128 %d" % len([1 for e in t if e[2]]))
                t.append((uniq, v, True, cu_label))
            elif f == "loclistx":
                t = v5tab(ui)["loclists"]
                a.emit(".uleb128 %d" % len([1 for e in t if e[2]]))
                t.append((uniq, v, True, cu_label))
            elif f == "line_strp":
                a.emit(".long .Llstr_%s - .Ldebug_line_str0" % uniq); line_strs.append((uniq, v))
            elif f == "data16":
                a.emit(".byte " + ", ".join(str(b) for b in v))
            elif f == "sec_label":
                a.emit(".long %s" % v)
            else:
                raise ValueError("form " + f)
        hc = d.get("has_children", bool(d["children"]))
        if hc:
            for c in d["children"]:
                emit_die(c, u, ui, cu_label)
            a.emit(".byte 0")
        elif d["children"]:
            raise ValueError("children without the children flag")

    a.emit('.section .debug_info,"",@progbits')
    a.label(".Ldebug_info0")
    for ui, u in enumerate(units):
        cu = ".Lcu%d" % ui
        a.label(cu)
        a.label("unit_%d" % ui, glob=True)
        a.emit(".long %s_end - %s_ver" % (cu, cu))
        a.label(cu + "_ver")
        a.emit(".value %d" % u["version"])
        tl = ".Labbrev_tab_%s - .Ldebug_abbrev0" % str(u.get("table", id(u))).replace("-", "m")
        if u["version"] >= 5:
            # DW_UT_compile 1, DW_UT_type 2, DW_UT_partial 3, DW_UT_skeleton 4; type units carry the signature of
            # their type and the offset of its DIE, skeleton units the id of the split unit they stand for
            a.emit(".byte %d" % {"pu": 3, "cu": 1, "tu": 2, "sk": 4}[u["kind"]])
            a.emit(".byte 8")
            a.emit(".long " + tl)
            if u["kind"] == "tu":
                a.emit(".quad %d" % u.get("signature", 0x1122334455667788 + ui))
                a.emit(".long die_%d - %s" % (u.get("type_die", u["root"]["children"][0]["id"] if u["root"]["children"] else u["root"]["id"]), cu))
            elif u["kind"] == "sk":
                a.emit(".quad %d" % u.get("dwo_id", 0x99aabbccddeeff00 + ui))
        else:
            a.emit(".long " + tl)
            a.emit(".byte 8")
        if u.get("root") is not None:
            root = u["root"]
            if True:
                extra = []
                if uses(root, lambda f: f.startswith("strx") or f == "GNU_str_index"):
                    extra.append({"name": 0x72, "form": "sec_label", "value": ".Lsxbase_%d - .Ldebug_str_offsets0" % ui})
                need_addr = uses(root, lambda f: f.startswith("addrx") or f == "GNU_addr_index") or any(
                    isinstance(e, tuple) and isinstance(e[0], str) and "x" in e[0]
                    for d in [root] for e in _list_entries(d))
                if need_addr:
                    extra.append({"name": 0x73 if u["version"] >= 5 else 0x2133, "form": "sec_label", "value": ".Laxbase_%d - .Ldebug_addr0" % ui})
                if uses(root, lambda f: f == "rnglistx"):
                    extra.append({"name": 0x74, "form": "sec_label", "value": ".Lrlbase_%d - .Ldebug_rnglists0" % ui})
                if uses(root, lambda f: f == "loclistx"):
                    extra.append({"name": 0x8c, "form": "sec_label", "value": ".Lllbase_%d - .Ldebug_loclists0" % ui})
                if extra:
                    root = dict(root); root["attrs"] = list(root["attrs"]) + extra
            emit_die(root, u, ui, cu)
        a.label(cu + "_end")
    a.emit('.section .debug_abbrev,"",@progbits')
    a.label(".Ldebug_abbrev0")
    for g in order:
        tab = tables[g]
        a.label(".Labbrev_tab_%s" % str(g).replace("-", "m"))
        for ab in tab["abbrevs"]:
            a.emit(".uleb128 %d" % ab["code"])
            a.emit(".uleb128 %#x" % ab["tag"])
            a.emit(".byte %d" % (1 if ab["children"] else 0))
            for (n, f, imp) in ab["attrs"]:
                a.emit(".uleb128 %#x" % n)
                a.emit(".uleb128 %#x" % FORM[f])
                if f == "implicit_const":
                    a.emit(".sleb128 %d" % imp)
            a.emit(".byte 0"); a.emit(".byte 0")
        a.emit(".byte 0")
    if loc_entries:
        a.emit('.section .debug_loc,"",@progbits')
        a.label(".Ldebug_loc0")
        for uniq, ranges, cu_label in loc_entries:
            a.label(".Lloc_%s" % uniq)
            for ri, (lo, hi, ops) in enumerate(ranges):
                a.emit(".quad %d" % lo); a.emit(".quad %d" % hi)
                a.emit(".value .Lle_%s_%d_e - .Lle_%s_%d_s" % (uniq, ri, uniq, ri))
                a.label(".Lle_%s_%d_s" % (uniq, ri))
                _expr(a, ops, cu_label, ".Ldebug_info0", "%s_r%d" % (uniq, ri))
                a.label(".Lle_%s_%d_e" % (uniq, ri))
            a.emit(".quad 0"); a.emit(".quad 0")
    if range_entries:
        a.emit('.section .debug_ranges,"",@progbits')
        a.label(".Ldebug_ranges0")
        for uniq, ranges in range_entries:
            a.label(".Lrng_%s" % uniq)
            for lo, hi in ranges:
                a.emit(".quad %d" % lo); a.emit(".quad %d" % hi)
            a.emit(".quad 0"); a.emit(".quad 0")
    RLE = {"end_of_list": 0, "base_addressx": 1, "startx_endx": 2, "startx_length": 3, "offset_pair": 4, "base_address": 5,
           "start_end": 6, "start_length": 7}
    LLE = {"end_of_list": 0, "base_addressx": 1, "startx_endx": 2, "startx_length": 3, "offset_pair": 4, "default_location": 5,
           "base_address": 6, "start_end": 7, "start_length": 8}

    def emit_range_operands(kind, x, y, ui):
        if kind in ("start_end",): a.emit(".quad %d" % x); a.emit(".quad %d" % y)
        elif kind == "start_length": a.emit(".quad %d" % x); a.emit(".uleb128 %d" % y)
        elif kind == "offset_pair": a.emit(".uleb128 %d" % x); a.emit(".uleb128 %d" % y)
        elif kind == "base_address": a.emit(".quad %d" % x)
        elif kind == "startx_endx":
            a.emit(".uleb128 %d" % index_of(v5tab(ui)["addrx"], x)); a.emit(".uleb128 %d" % index_of(v5tab(ui)["addrx"], y))
        elif kind == "startx_length": a.emit(".uleb128 %d" % index_of(v5tab(ui)["addrx"], x)); a.emit(".uleb128 %d" % y)
        elif kind == "base_addressx": a.emit(".uleb128 %d" % index_of(v5tab(ui)["addrx"], x))
        elif kind == "default_location": pass

    if any(t["rnglists"] for t in v5.values()):
        a.emit('.section .debug_rnglists,"",@progbits')
        a.label(".Ldebug_rnglists0")
        for ui, t in sorted(v5.items()):
            if not t["rnglists"]:
                continue
            idx = [e for e in t["rnglists"] if e[2]]
            a.emit(".long .Lrlend_%d - .Lrlver_%d" % (ui, ui)); a.label(".Lrlver_%d" % ui)
            a.emit(".value 5"); a.emit(".byte 8"); a.emit(".byte 0"); a.emit(".long %d" % len(idx))
            a.label(".Lrlbase_%d" % ui)
            for (uniq, v, _, _) in idx:
                a.emit(".long .Lrl_%s - .Lrlbase_%d" % (uniq, ui))
            for (uniq, v, _, _) in t["rnglists"]:
                a.label(".Lrl_%s" % uniq)
                for e in v:
                    e = tuple(e)
                    if not isinstance(e[0], str):
                        e = ("start_end",) + e
                    a.emit(".byte %d" % RLE[e[0]])
                    emit_range_operands(e[0], e[1] if len(e) > 1 else 0, e[2] if len(e) > 2 else 0, ui)
                a.emit(".byte 0")
            a.label(".Lrlend_%d" % ui)
    if any(t["loclists"] for t in v5.values()):
        a.emit('.section .debug_loclists,"",@progbits')
        a.label(".Ldebug_loclists0")
        for ui, t in sorted(v5.items()):
            if not t["loclists"]:
                continue
            idx = [e for e in t["loclists"] if e[2]]
            a.emit(".long .Lllend_%d - .Lllver_%d" % (ui, ui)); a.label(".Lllver_%d" % ui)
            a.emit(".value 5"); a.emit(".byte 8"); a.emit(".byte 0"); a.emit(".long %d" % len(idx))
            a.label(".Lllbase_%d" % ui)
            for (uniq, v, _, _) in idx:
                a.emit(".long .Lll_%s - .Lllbase_%d" % (uniq, ui))
            for (uniq, v, _, cu_label) in t["loclists"]:
                a.label(".Lll_%s" % uniq)
                for ri, e in enumerate(v):
                    e = tuple(e)
                    if not isinstance(e[0], str):
                        e = ("start_end",) + e
                    kind, ops = e[0], e[-1]
                    a.emit(".byte %d" % LLE[kind])
                    emit_range_operands(kind, e[1] if len(e) > 2 else 0, e[2] if len(e) > 3 else 0, ui)
                    if kind not in ("base_address", "base_addressx"):
                        a.emit(".uleb128 .Lle5_%s_%d_e - .Lle5_%s_%d_s" % (uniq, ri, uniq, ri))
                        a.label(".Lle5_%s_%d_s" % (uniq, ri))
                        _expr(a, ops, cu_label, ".Ldebug_info0", "%s_v%d" % (uniq, ri))
                        a.label(".Lle5_%s_%d_e" % (uniq, ri))
                a.emit(".byte 0")
            a.label(".Lllend_%d" % ui)
    if any(t["addrx"] for t in v5.values()):
        a.emit('.section .debug_addr,"",@progbits')
        a.label(".Ldebug_addr0")
        for ui, t in sorted(v5.items()):
            if not t["addrx"]:
                continue
            if units[ui]["version"] >= 5:          # the GNU precursor (DW_FORM_GNU_addr_index in a version 4 unit) has no header
                a.emit(".long .Laxend_%d - .Laxver_%d" % (ui, ui)); a.label(".Laxver_%d" % ui)
                a.emit(".value 5"); a.emit(".byte 8"); a.emit(".byte 0")
            a.label(".Laxbase_%d" % ui)
            for ad in t["addrx"]:
                a.emit(".quad %d" % ad)
            a.label(".Laxend_%d" % ui)
    if any(t["strx"] for t in v5.values()):
        a.emit('.section .debug_str_offsets,"",@progbits')
        a.label(".Ldebug_str_offsets0")
        for ui, t in sorted(v5.items()):
            if not t["strx"]:
                continue
            if units[ui]["version"] >= 5:
                a.emit(".long .Lsxend_%d - .Lsxver_%d" % (ui, ui)); a.label(".Lsxver_%d" % ui)
                a.emit(".value 5"); a.emit(".value 0")
            a.label(".Lsxbase_%d" % ui)
            for k, bs in enumerate(t["strx"]):
                a.emit(".long .Lstr_sx%d_%d - .Ldebug_str0" % (ui, k))
                forest.setdefault("_strs", []).append(("sx%d_%d" % (ui, k), bs))
            a.label(".Lsxend_%d" % ui)
    if line_strs:
        a.emit('.section .debug_line_str,"MS",@progbits,1')
        a.label(".Ldebug_line_str0")
        for uniq, v in line_strs:
            a.label(".Llstr_%s" % uniq)
            bs = v if isinstance(v, (bytes, bytearray)) else v.encode("latin-1")
            for b in bs: a.emit(".byte %d" % b)
            a.emit(".byte 0")
    if forest.get("_strs"):
        a.emit('.section .debug_str,"MS",@progbits,1')
        a.label(".Ldebug_str0")
        for uniq, v in forest["_strs"]:
            a.label(".Lstr_%s" % uniq)
            bs = v if isinstance(v, (bytes, bytearray)) else v.encode("latin-1")
            for b in bs: a.emit(".byte %d" % b)
            a.emit(".byte 0")
    if forest.get("_alt_name"):
        a.emit('.section .gnu_debugaltlink,"",@progbits')
        a.emit('.asciz "%s"' % forest["_alt_name"])
        a.emit(".byte " + ",".join("0x%02x" % (0xa0 + k) for k in range(20)))       # the build id of the alt file
    a.emit('.section .text')
    a.emit(".byte 0")
    with open(path_s, "w") as f:
        f.write("\n".join(a.lines) + "\n")
    return [{"group": g, "abbrevs": tables[g]["abbrevs"]} for g in order]


def debug_str_offsets(path_o):
    """string (bytes) -> offset in .debug_str of the object."""
    pr = subprocess.run(["objcopy", "--dump-section", ".debug_str=" + path_o + ".str", path_o, path_o + ".tmp"],
                        stdout=subprocess.PIPE, stderr=subprocess.PIPE)
    try:
        os.unlink(path_o + ".tmp")
    except OSError:
        pass
    out = {}
    try:
        data = open(path_o + ".str", "rb").read()
    except OSError:
        return out
    off = 0
    for piece in data.split(b"\0")[:-1]:
        out.setdefault(piece, off)
        off += len(piece) + 1
    os.unlink(path_o + ".str")
    return out


def assemble(path_s, path_o):
    pr = subprocess.run(["as", "-o", path_o, path_s], stdout=subprocess.PIPE, stderr=subprocess.PIPE)
    if pr.returncode != 0:
        raise RuntimeError("as failed: " + pr.stderr.decode()[:2000])


def symbol_offsets(path_o):
    """die_<id> / unit_<i> -> offset in .debug_info, read from the symbol table."""
    pr = subprocess.run(["readelf", "-sW", path_o], stdout=subprocess.PIPE, stderr=subprocess.PIPE)
    offs = {}
    for line in pr.stdout.decode().splitlines():
        f = line.split()
        if len(f) >= 8 and (f[7].startswith("die_") or f[7].startswith("unit_")):
            offs[f[7]] = int(f[1], 16)
    return offs


def build(forest, workdir, name):
    s = os.path.join(workdir, name + ".s")
    o = os.path.join(workdir, name + ".o")
    forest.pop("_strs", None)
    alt_offs = {}
    if forest.get("alt_units"):
        # the dwz alt file first: its DIE offsets are needed for DW_FORM_GNU_ref_alt in the main file.  It sits
        # next to the main file under the name recorded in .gnu_debugaltlink.
        altname = name + "-alt.o"
        alt_forest = {"units": forest["alt_units"]}
        generate(alt_forest, os.path.join(workdir, name + "-alt.s"))
        assemble(os.path.join(workdir, name + "-alt.s"), os.path.join(workdir, altname))
        alt_offs = symbol_offsets(os.path.join(workdir, altname))
        forest["_alt_offsets"] = alt_offs
        forest["_alt_strs"] = debug_str_offsets(os.path.join(workdir, altname))
        forest["_alt_name"] = altname
    tables = generate(forest, s)
    assemble(s, o)
    offs = symbol_offsets(o)
    for k, v in alt_offs.items():
        offs["alt_" + k] = v
    return o, offs, tables
