"""C15: notation does not change meaning (sugar, layout, simplifier)."""
import os, sys, json, random
import common, tlc, zw, engine, variants

PID = "C15"


def leaves_value(a):
    k = a.get("k")
    if k in ("lit", "str", "name", "cap", "fmt", "elist"):
        return True
    if k == "cat":
        return leaves_value(a["b"]) and a["b"].get("k") != "emp"
    if k in ("alt", "or"):
        return leaves_value(a["a"]) and leaves_value(a["b"])
    return False


def run(tier):
    vd = common.Verdict(PID, tier)
    wd = common.scratch(PID)
    bdir = common.build("plain")
    rng = random.Random(common.seed())
    # 1. the documented equivalences hold for the meaning (tla/Equiv.tla)
    for fam in (["altor", "subif"] if tier == "quick" else ["altor", "subif", "closure", "fmt"]):
        r = tlc.run_tlc("Equiv", constants={"QFamily": fam, "QMaxW": 2}, workers=1, timeout=1500)
        if not r.ok:
            if "Assumption" in r.out or "assumption" in r.out:
                vd.observe("model:equivalence:" + fam, {"output": r.out[-4000:]})
            else:
                raise common.ToolError("TLC Equiv failed\n" + r.out[-2000:])
        vd.cov["states"] += 1
        vd.cov["transitions"] += 1
    # 2. variants of TLC-enumerated programs on the implementation
    base = []
    for fam in ("altor", "subif", "fmt"):
        # the simplifier in the mechanism layer: Engine.tla runs every program compiled with and without
        # tree::simplify (tla/Tree.tla) against Zw!Den; Simplify reaches a fixed point free of its patterns
        r = engine.model_check(vd, fam, 2)
        if r.violated:
            vd.observe("model:%s:%s" % (fam, r.violated), {"output": r.out[-4000:]})
        vecs, st = engine.generate(fam, 3 if tier == "thorough" else 2, 8, wd, nosimp=True)
        # binding: parse tree before / after simplify, pull sequence of both compilations
        engine.replay(vd, vecs, bdir, wd, PID, check_illformed=False)
        base += [v for v in vecs if v["kind"] == "stream"]
    if tier == "quick":
        vecs3, st = engine.generate("subif", 3, 16, wd, light=True)
        s3 = [v for v in vecs3 if v["kind"] == "stream"]
        base += rng.sample(s3, min(1500, len(s3)))
        vecs4, st = engine.generate("altor", 3, 16, wd, light=True)
        s4 = [v for v in vecs4 if v["kind"] == "stream"]
        base += rng.sample(s4, min(1500, len(s4)))
    cmds, meta = [], []
    def add(txt, flags, group, kind, exact):
        cmds.append("\t".join(["run", str(len(cmds)), flags, zw.hexq(txt)]))
        meta.append((group, kind, exact, txt))
    for gi, v in enumerate(base):
        ast = v["ast"]
        txt = zw.unparse(ast, "top")
        add(txt, "max=2000", gi, "base", True)
        add(txt, "max=2000,nosimp", gi, "nosimp", True)
        try:
            add(variants.relayout(txt, rng, comments=False), "max=2000", gi, "layout", True)
            add(variants.relayout(txt, rng, comments=True), "max=2000", gi, "comments", True)
            add(variants.relayout(txt, rng, comments=True, stars=True), "max=2000", gi, "star-comments", True)
            toks = variants.tokens(txt)
        except ValueError:
            toks = []
        strs = [i for i, t in enumerate(toks) if t.startswith('"') and "%" not in t and "\\" not in t and len(t) > 2]
        if strs:
            t2 = list(toks)
            i = rng.choice(strs)
            t2[i] = variants.respell_string(t2[i], rng)
            add(" ".join(t2), "max=2000", gi, "string-spelling", True)
        if '"%(  %)' in txt or '%(  %)' in txt:
            add(txt.replace("%(  %)", "%s"), "max=2000", gi, "%s", True)
        rw = variants.rewrites(ast, leaves_value)
        if tier == "quick" and len(rw) > 4:
            rw = rng.sample(rw, 4)
        for name, new in rw:
            try:
                add(zw.unparse(new, "top"), "max=2000", gi, name, name in ("parens", "opt->(E,)"))
                add(zw.unparse(new, "top"), "max=2000,nosimp", gi, name + "+nosimp", name in ("parens", "opt->(E,)"))
            except Exception:
                pass
    res = zw.run_driver(os.path.join(bdir, "bin", "zwdrv"), cmds, wd, tag="variants")
    byid = {r.get("id"): r for r in res}
    bases = {}
    nontriv = set()
    for i, (gi, kind, exact, txt) in enumerate(meta):
        r = byid.get(str(i))
        if kind == "base":
            bases[gi] = r
            continue
        vd.cov["evaluations"] += 1
        b = bases.get(gi)
        if b is None or r is None:
            raise common.ToolError("missing driver record")
        def norm(x):
            if x.get("status") != "ok":
                return (x.get("status"), x.get("err", "")[:40])
            rs = [json.dumps(s, sort_keys=True) for s in x["results"]]
            return ("ok", tuple(rs) if exact else tuple(sorted(rs)), x.get("soft") if exact else None)
        nb = norm(b)
        if not exact and nb[0] == "ok":
            nb = ("ok", tuple(sorted(nb[1])), None)
        if norm(r) != nb:
            btxt = meta[[j for j, m in enumerate(meta) if m[0] == gi and m[1] == "base"][0]][3]
            vd.observe("%s: `%s' vs `%s'" % (kind, btxt, txt.replace("\n", "\\n")),
                       {"kind": kind, "base": btxt, "variant": txt, "base_result": b, "variant_result": r})
        elif b.get("status") == "ok" and len(b["results"]) > 0:
            nontriv.add((gi, kind))
    vd.cov["distinct_nontrivial"] = len(nontriv)
    vd.sample({"base": meta[0][3], "variant": meta[3][3], "kind": meta[3][1]})
    vd.sample({"base": meta[0][3], "variant": meta[-1][3], "kind": meta[-1][1]})
    return vd.finish(rule="(1) tla/Equiv.tla: E?=(E,), if=ALT of assertions, ?(E)=([E]!=[]), infix=?(let..), X**=X* hold for "
                     "Zw!Den over all operands of the family; (2) for every TLC-enumerated base program: compiled with and "
                     "without tree::simplify, re-laid-out with whitespace/newlines and comments of the three styles between "
                     "all tokens, strings re-spelled (continuation, \\x, octal, raw), %%( %%) vs %%s, and every single-position "
                     "sugar rewrite; results must be identical (sequence; multiset where the rewrite changes branch order); "
                     "non-trivial = variant of a program with >= 1 result; (3) tla/Tree.tla transcribes the grammar actions and "
                     "tree::simplify, tla/EngineOps.tla builds the op graph from the tree: Engine.tla is model-checked with and "
                     "without the simplification (same meaning, Simplify is a fixed point free of its patterns), and the real parse "
                     "tree before and after simplify and the pull sequences of both compilations are compared with the model",
                     extra={"base_programs": len(base), "variants": len(meta) - len(base)})

def replay(path):
    print(open(path).read())
    return 0
