"""C15: notation does not change meaning (sugar, layout, simplifier)."""
import binascii, os, sys, json, random
import common, tlc, zw, engine, variants

PID = "C15"


def leaves_value(a):
    k = a.get("k")
    if k in ("lit", "str", "name", "cap", "fmt", "elist"):
        return True
    if k == "cat":
        return leaves_value(a["b"]) and a["b"].get("k") != "emp"
    if k in ("alt", "or"):
        return leaves_value(a["a"]) and leaves_value(a["b"])
    return False


SPLICE_LIMIT = 255
TOKTEXT = {"Q": '"', "PL": "%(", "PR": "%)", "L": "(", "R": ")", "X": "1", "N": "\n", "BQ": '\\"', "BSQ": '\\\\"', "PPL": "%%(", "PPR": "%%)"}


def lexer_language(vd, drv, wd, tier):
    """tla/Lexer.tla: the state machine of STRING / STRING_EMBEDDED accepts exactly the documented language of
    string literals with embedded programs (TLC, all token sequences up to the bound); the sequences are replayed
    on the real parser: verdict against the language, parse tree against the segmentation of the model."""
    runs = [(6, ["Q", "PL", "PR", "L", "R", "X"]), (9, ["Q", "PL", "PR", "R"]), (6, ["Q", "PL", "PR", "N", "X"]), (6, ["Q", "PL", "PR", "BQ", "BSQ", "R"]), (7, ["Q", "PL", "PR", "PPL", "PPR"])]
    if tier == "thorough":
        runs = [(7, ["Q", "PL", "PR", "L", "R", "X"]), (9, ["Q", "PL", "PR", "R"]), (8, ["Q", "PL", "PR", "L", "R"]),
                (7, ["Q", "PL", "PR", "N", "X"]), (7, ["Q", "PL", "PR", "BQ", "BSQ", "R"]), (8, ["Q", "PL", "PR", "BSQ", "R"]), (8, ["Q", "PL", "PR", "PPL", "PPR"])]
    # non-vacuity: without the reset of in_string at "%(" the theorem fails
    m = tlc.run_tlc("MCLexer", constants={"MaxLen": 9, "NoReset": True, "Pinned": "none", "SpliceLimit": SPLICE_LIMIT, "Tok": ["Q", "PL", "PR", "R"]}, workers=1, timeout=900, heap="8g")
    if "is false" not in m.out:
        raise common.ToolError("Lexer.tla: the NoReset mutant is not caught\n" + m.out[-1500:])
    # ... nor without the copying of newlines, nor without the escaped backslash (the states before two repairs)
    for pin in ("dropnl", "nopair", "nopct"):
        m = tlc.run_tlc("MCLexer", constants={"MaxLen": 3, "NoReset": False, "Pinned": pin, "SpliceLimit": SPLICE_LIMIT, "Tok": ["Q", "PL", "N"]}, workers=1, timeout=900, heap="4g")
        if "is false" not in m.out:
            raise common.ToolError("Lexer.tla: the mutant %s is not caught\n" % pin + m.out[-1500:])
    # the nesting limit, where the bound of the model reaches it: both layers agree for limits 1 and 2
    for lim in (1, 2):
        m = tlc.run_tlc("MCLexer", constants={"MaxLen": 9, "NoReset": False, "Pinned": "none", "SpliceLimit": lim, "Tok": ["Q", "PL", "PR", "X"]}, workers=1, timeout=900, heap="8g")
        if not m.ok:
            if "ssumption" in m.out and "is false" in m.out:
                vd.observe("model:lexer: mechanism and language differ at splice limit %d" % lim, {"output": m.out[-3000:]})
            else:
                raise common.ToolError("MCLexer failed\n" + m.out[-2000:])
    vecs = []
    for n, tok in runs:
        out = os.path.join(wd, "lex-%d-%d.ndjson" % (n, len(tok)))
        r = tlc.run_tlc("LexerGen", constants={"MaxLen": n, "NoReset": False, "Pinned": "none", "SpliceLimit": SPLICE_LIMIT, "Tok": tok, "OutFile": out, "Shard": 0, "NShards": 1},
                        workers=1, timeout=1500, heap="12g")
        if not r.ok or not os.path.exists(out):
            if "ssumption" in r.out and "is false" in r.out:
                vd.observe("model:lexer: the mechanism does not accept exactly the language", {"output": r.out[-3000:]})
                continue
            raise common.ToolError("LexerGen failed\n" + r.out[-2000:])
        vd.cov["states"] += int((__import__("re").search(r'"LEXGEN",\s*(\d+)', r.out) or [0, 0])[1])
        vecs += [json.loads(l) for l in open(out) if l.strip()]
    seen, cmds, meta = set(), [], []
    for v in vecs:
        txt = " ".join(TOKTEXT[t] for t in v["w"])
        if txt in seen:
            continue
        seen.add(txt)
        cmds.append("\t".join(["run", str(len(cmds)), "tree,noexec,t=20", zw.hexq(txt)])); meta.append((txt, v))
    res = zw.run_driver(drv, cmds, wd, tag="lexer")
    byid = {r.get("id"): r for r in res}
    for i, (txt, v) in enumerate(meta):
        vd.cov["evaluations"] += 1
        r = byid.get(str(i)) or {}
        st = r.get("status")
        if st not in ("parsed", "parse_error"):
            vd.observe("lexer: `%s' neither compiled nor rejected" % txt, {"observed": r}); continue
        if (st == "parsed") != v["ok"]:
            vd.observe("lexer: `%s' is %s the language of string literals with embedded programs but is %s"
                       % (txt, "in" if v["ok"] else "not in", "rejected" if v["ok"] else "accepted"), {"observed": r})
            continue
        if v["ok"]:
            want = [engine.render_tree(v["tree"]), engine.render_tree(v["stree"])]
            if r.get("tree", "") == "\n".join(want):
                vd.cov["traces_validated_against_impl"] += 1
            else:
                vd.drift.append("parse tree of `%s' differs from tla/LexerGen.tla: %s vs %s" % (txt, r.get("tree"), want))
    # the limit itself (SpliceLimit of the model = max_subquery_depth - 1 of parser.yy): splices, and the
    # directives that stand for one (%s is a splice of the empty program), nested up to the limit compile,
    # one level more is rejected -- and far beyond it too, with a message, not with a crash
    dcmds, dmeta = [], []
    for n in (1, 8, SPLICE_LIMIT - 1, SPLICE_LIMIT, SPLICE_LIMIT + 1, SPLICE_LIMIT + 2, 1000, 3000, 30000):
        for inner, extra in (("1", 0), ('"%s"', 1), ('"%( 1 %) %x"', 1), ('"a"', 0)):
            txt = '"%( ' * n + inner + ' %)"' * n
            dcmds.append("\t".join(["parse", str(len(dcmds)), "t=60", zw.hexq(txt)])); dmeta.append((n, inner, n + extra <= SPLICE_LIMIT))
    dby = {r.get("id"): r for r in zw.run_driver(drv, dcmds, wd, tag="lexdepth")}
    for i, (n, inner, want) in enumerate(dmeta):
        vd.cov["evaluations"] += 1
        r = dby.get(str(i)) or {}
        if r.get("status") not in ("accepted", "rejected") or "contract" in r:
            vd.observe("lexer: %d nested splices around `%s' neither compiled nor rejected" % (n, inner), {"observed": r}); continue
        if (r.get("status") == "accepted") != want:
            vd.observe("lexer: %d nested splices around `%s' are %s (the limit of the model is %d)"
                       % (n, inner, r.get("status"), SPLICE_LIMIT), {"observed": r})
    return len(meta) + len(dmeta)


def run(tier):
    vd = common.Verdict(PID, tier)
    wd = common.scratch(PID)
    bdir = common.build("plain")
    rng = random.Random(common.seed())
    # 1. the documented equivalences hold for the meaning (tla/Equiv.tla)
    for fam in (["altor", "subif"] if tier == "quick" else ["altor", "subif", "closure", "fmt"]):
        r = tlc.run_tlc("Equiv", constants={"QFamily": fam, "QMaxW": 2}, workers=1, timeout=1500)
        if not r.ok:
            if "Assumption" in r.out or "assumption" in r.out:
                vd.observe("model:equivalence:" + fam, {"output": r.out[-4000:]})
            else:
                raise common.ToolError("TLC Equiv failed\n" + r.out[-2000:])
        vd.cov["states"] += 1
        vd.cov["transitions"] += 1
    nlex = lexer_language(vd, os.path.join(bdir, "bin", "zwdrv"), wd, tier)
    # 2. variants of TLC-enumerated programs on the implementation
    base = []
    for fam in ("altor", "subif", "fmt"):
        # the simplifier in the mechanism layer: Engine.tla runs every program compiled with and without
        # tree::simplify (tla/Tree.tla) against Zw!Den; Simplify reaches a fixed point free of its patterns
        r = engine.model_check(vd, fam, 2)
        if r.violated:
            vd.observe("model:%s:%s" % (fam, r.violated), {"output": r.out[-4000:]})
        vecs, st = engine.generate(fam, 3 if tier == "thorough" else 2, 8, wd, nosimp=True)
        # binding: parse tree before / after simplify, pull sequence of both compilations
        engine.replay(vd, vecs, bdir, wd, PID, check_illformed=False)
        base += [v for v in vecs if v["kind"] == "stream"]
    # the patterns tree::simplify rewrites, inside every kind of sub-expression (a CAT that stands alone there)
    # infix comparisons under ?( ) and !( ) with operands that yield no value, one, several: what a rewrite of
    # the tree may and may not assume about them (`!(A < B)' is not `(A >= B)')
    rcmp = engine.model_check(vd, "cmp", 2)
    if rcmp.violated:
        vd.observe("model:cmp:" + rcmp.violated, {"output": rcmp.out[-4000:]})
    vcmp, st = engine.generate("cmp", 3, 16, wd, nosimp=True)
    engine.replay(vd, vcmp, bdir, wd, PID, check_illformed=False)
    rsim = engine.model_check(vd, "simp", 3)
    if rsim.violated:
        vd.observe("model:simp:" + rsim.violated, {"output": rsim.out[-4000:]})
    vsim, st = engine.generate("simp", 4, 16, wd, nosimp=True)
    engine.replay(vd, vsim, bdir, wd, PID, check_illformed=False)
    base += [v for v in vsim if v["kind"] == "stream"][::3]
    if tier == "quick":
        vecs3, st = engine.generate("subif", 3, 16, wd, light=True)
        s3 = [v for v in vecs3 if v["kind"] == "stream"]
        base += rng.sample(s3, min(1500, len(s3)))
        vecs4, st = engine.generate("altor", 3, 16, wd, light=True)
        s4 = [v for v in vecs4 if v["kind"] == "stream"]
        base += rng.sample(s4, min(1500, len(s4)))
    cmds, meta = [], []
    def add(txt, flags, group, kind, exact):
        cmds.append("\t".join(["run", str(len(cmds)), flags, zw.hexq(txt)]))
        meta.append((group, kind, exact, txt))
    for gi, v in enumerate(base):
        ast = v["ast"]
        txt = zw.unparse(ast, "top")
        add(txt, "max=2000", gi, "base", True)
        add(txt, "max=2000,nosimp", gi, "nosimp", True)
        try:
            add(variants.relayout(txt, rng, comments=False), "max=2000", gi, "layout", True)
            add(variants.relayout(txt, rng, comments=True), "max=2000", gi, "comments", True)
            add(variants.relayout(txt, rng, comments=True, stars=True), "max=2000", gi, "star-comments", True)
            toks = variants.tokens(txt)
        except ValueError:
            toks = []
        strs = [i for i, t in enumerate(toks) if t.startswith('"') and "%" not in t and "\\" not in t and len(t) > 2]
        if strs:
            t2 = list(toks)
            i = rng.choice(strs)
            t2[i] = variants.respell_string(t2[i], rng)
            add(" ".join(t2), "max=2000", gi, "string-spelling", True)
        if '"%(  %)' in txt or '%(  %)' in txt:
            add(txt.replace("%(  %)", "%s"), "max=2000", gi, "%s", True)
        rw = variants.rewrites(ast, leaves_value)
        if tier == "quick" and len(rw) > 4:
            rw = rng.sample(rw, 4)
        for name, new in rw:
            try:
                add(zw.unparse(new, "top"), "max=2000", gi, name, name in ("parens", "opt->(E,)"))
                add(zw.unparse(new, "top"), "max=2000,nosimp", gi, name + "+nosimp", name in ("parens", "opt->(E,)"))
            except Exception:
                pass
    res = zw.run_driver(os.path.join(bdir, "bin", "zwdrv"), cmds, wd, tag="variants")
    byid = {r.get("id"): r for r in res}
    bases = {}
    nontriv = set()
    for i, (gi, kind, exact, txt) in enumerate(meta):
        r = byid.get(str(i))
        if kind == "base":
            bases[gi] = r
            continue
        vd.cov["evaluations"] += 1
        b = bases.get(gi)
        if b is None or r is None:
            raise common.ToolError("missing driver record")
        def norm(x):
            if x.get("status") != "ok":
                return (x.get("status"), x.get("err", "")[:40])
            rs = [json.dumps(s, sort_keys=True) for s in x["results"]]
            return ("ok", tuple(rs) if exact else tuple(sorted(rs)), x.get("soft") if exact else None)
        nb = norm(b)
        if not exact and nb[0] == "ok":
            nb = ("ok", tuple(sorted(nb[1])), None)
        if norm(r) != nb:
            btxt = meta[[j for j, m in enumerate(meta) if m[0] == gi and m[1] == "base"][0]][3]
            vd.observe("%s: `%s' vs `%s'" % (kind, btxt, txt.replace("\n", "\\n")),
                       {"kind": kind, "base": btxt, "variant": txt, "base_result": b, "variant_result": r})
        elif b.get("status") == "ok" and len(b["results"]) > 0:
            nontriv.add((gi, kind))
    # comments inside a splice whose text has a bracket or %): the lexer finds the end of a splice by counting
    # brackets over the raw text and does not know comments (known finding; comments without such characters,
    # and those outside of splices, are covered by the layout variants above)
    ccmds, cmeta = [], []
    for base, ins in (('"%( 1 @@ %)"', "1"), ('1 "%( @@ 2 add %)"', "3"), ('"a%( [1, @@ 2] %)b"', "a[1, 2]b")):
        for com in ("/* ) */", "/* ( */", "// )\n", "# (\n", "/* ] */", "/* { */", "/* %) */", "# %)\n", "/* \" ) */", "/* c */", "# c\n", "// c\n"):
            txt = base.replace("@@", com)
            ccmds.append("\t".join(["run", str(len(ccmds)), "max=50", zw.hexq(txt)])); cmeta.append((txt, ins, com))
    cby = {r.get("id"): r for r in zw.run_driver(os.path.join(bdir, "bin", "zwdrv"), ccmds, wd, tag="splicecomments")}
    for i, (txt, want, com) in enumerate(cmeta):
        vd.cov["evaluations"] += 1
        r = cby.get(str(i)) or {}
        got = None
        if r.get("status") == "ok" and len(r["results"]) == 1 and r["results"][0][-1]["t"] == "str":
            got = binascii.unhexlify(r["results"][0][-1]["hex"]).decode()
        if got != want:
            special = any(c in com for c in "()[]{}") or "%)" in com
            vd.observe(("comment with a bracket or %%) inside a splice: `%s'" if special else "comment inside a splice: `%s'") % txt.replace("\n", "\\n"),
                       {"program": txt, "expected": want, "observed": r})
    vd.cov["distinct_nontrivial"] = len(nontriv)
    vd.sample({"base": meta[0][3], "variant": meta[3][3], "kind": meta[3][1]})
    vd.sample({"base": meta[0][3], "variant": meta[-1][3], "kind": meta[-1][1]})
    return vd.finish(rule="(1) tla/Equiv.tla: E?=(E,), if=ALT of assertions, ?(E)=([E]!=[]), infix=?(let..), X**=X* hold for "
                     "Zw!Den over all operands of the family; (2) for every TLC-enumerated base program: compiled with and "
                     "without tree::simplify, re-laid-out with whitespace/newlines and comments of the three styles between "
                     "all tokens, strings re-spelled (continuation, \\x, octal, raw), %%( %%) vs %%s, and every single-position "
                     "sugar rewrite; results must be identical (sequence; multiset where the rewrite changes branch order); "
                     "non-trivial = variant of a program with >= 1 result; (3) tla/Tree.tla transcribes the grammar actions and "
                     "tree::simplify, tla/EngineOps.tla builds the op graph from the tree: Engine.tla is model-checked with and "
                     "without the simplification (same meaning, Simplify is a fixed point free of its patterns; families altor, subif, fmt and "
                     "`simp': empty expressions, E?, %s and ALT/OR inside captures and sub-expressions up to weight 4), and the real parse "
                     "tree before and after simplify and the pull sequences of both compilations are compared with the model; (4) tla/Lexer.tla: "
                     "the bracket-counting state machine of the lexer for %( ... %) accepts exactly the documented language (all token "
                     "sequences over \" %( %) ( ) 1 up to length 6, over \" %( %) ) up to length 9), every sequence of the language and a "
                     "sample of the others are parsed by the implementation: verdict and segmentation (parse tree) must agree",
                     extra={"base_programs": len(base), "variants": len(meta) - len(base), "lexer_words": nlex})

def replay(path):
    print(open(path).read())
    return 0
