"""C16: address sets behave as mathematical sets of addresses."""
import os, sys, json, subprocess, random
import common, tlc, zw

PID = "C16"
INV = ["CanonicalInv", "RefinesAdd", "RefinesRemove", "QueriesOK", "IntersectOK", "UniqueRep"]
BASES = [0, 2**32 - 4, 2**63 - 4]


def vec_s(v):
    return ",".join("%d:%d" % (a, b) for a, b in v)


def aset_expr(v, base, variant=0):
    """Zwerg text building the address set with the given runs."""
    if not v:
        return "0 0 aset"
    runs = ["%d %d aset" % (base + s, base + s + l) for s, l in v]
    if variant == 1:      # operands of aset swapped, runs added in reverse
        runs = ["%d %d aset" % (base + s + l, base + s) for s, l in reversed(v)]
    if variant == 2 and v:     # a covering interval with the holes subtracted
        lo, hi = v[0][0], v[-1][0] + v[-1][1]
        txt = "%d %d aset" % (base + lo, base + hi)
        for i in range(len(v) - 1):
            hs, he = v[i][0] + v[i][1], v[i + 1][0]
            txt += " %d %d aset sub" % (base + hs, base + he)
        return txt
    txt = runs[0]
    for r in runs[1:]:
        txt += " " + r + " add"
    return txt


def run(tier):
    vd = common.Verdict(PID, tier)
    wd = common.scratch(PID)
    bdir = common.build("plain")
    n = 6 if tier == "quick" else 8
    bases = BASES + [2**64 - 2 - n]
    # 1. the design: mechanism (transcribed coverage.cc) refines set algebra, all reachable states
    r = tlc.run_tlc("Coverage", constants={"N": n, "FixedIntersect": True}, spec="Spec",
                    invariants=INV, workers=8, timeout=1200)
    if r.violated:
        vd.observe("model:" + r.violated, {"tlc_invariant": r.violated, "output": r.out[-5000:]})
    elif not r.ok:
        raise common.ToolError("TLC Coverage failed\n" + r.out[-2000:])
    vd.add_states(r)
    # 2. replay: every canonical set x every op/argument, expected from the meaning layer
    vf = os.path.join(wd, "cov.ndjson")
    pf = os.path.join(wd, "pairs.ndjson")
    g = tlc.run_tlc("CoverageGen", constants={"N": n, "FixedIntersect": True, "OutFile": vf,
                                              "PairFile": pf, "M": 4},
                    spec="Spec", constraint="GenOnly", workers=1, timeout=1200)
    if not os.path.exists(vf) or not os.path.exists(pf):
        raise common.ToolError("CoverageGen failed\n" + g.out[-2000:])
    vecs = [json.loads(l) for l in open(vf) if l.strip()]
    drv = os.path.join(bdir, "bin", "covdrv")
    for base in bases:
        cf = os.path.join(wd, "covcmd-%d.txt" % (base % 1000003))
        with open(cf, "w") as f:
            for v in vecs:
                f.write("%d\t%s\t%s\t%d\t%d\n" % (base, vec_s(v["st"]), v["op"], v["s"], v["l"]))
        pr = subprocess.run([drv, "vec", cf], stdout=subprocess.PIPE, stderr=subprocess.PIPE, timeout=600)
        lines = pr.stdout.decode().splitlines()
        if pr.returncode != 0 or len(lines) != len(vecs):
            vd.observe("covdrv crash base=%d" % base, {"rc": pr.returncode, "stderr": pr.stderr.decode()[-2000:]})
            continue
        for v, line in zip(vecs, lines):
            vd.cov["evaluations"] += 1
            ret, got = line.split("\t")
            exp = vec_s(v["exp"])
            if got != exp or (v["ret"] != "-" and ret != v["ret"]):
                key = "coverage::%s state=[%s] arg=%d+%d" % (v["op"], vec_s(v["st"]), v["s"], v["l"])
                vd.observe(key, {"base": base, "vector": v, "observed": {"ret": ret, "vec": got}})
    vd.cov["distinct_nontrivial"] += sum(1 for v in vecs if v["st"] and v["l"] > 0)
    vd.sample(vecs[len(vecs) // 2])
    # 3. random long traces validated by TLC against the spec (code -> spec)
    ntr = 0
    steps = 3000 if tier == "quick" else 20000
    for i, base in enumerate(bases):
        tf = os.path.join(wd, "covtrace-%d.ndjson" % i)
        subprocess.run([drv, "rand", str(common.seed() * 100 + i), str(steps), str(base), str(n), tf],
                       check=True, timeout=600)
        t = tlc.run_tlc("CoverageTrace", constants={"N": n, "FixedIntersect": True}, spec="TSpec",
                        invariants=["CanonicalInv", "RefinesAdd", "RefinesRemove"], workers=1,
                        timeout=1200, env={"COVTRACE": tf})
        nlines = sum(1 for _ in open(tf))
        if t.violated:
            vd.observe("trace-invariant:" + t.violated, {"trace": tf, "output": t.out[-3000:]})
        elif not t.ok:
            raise common.ToolError("CoverageTrace failed\n" + t.out[-2000:])
        elif t.depth != nlines + 1:
            # the line after the longest accepted prefix is not a step of the spec
            bad = open(tf).read().splitlines()[t.depth - 1] if t.depth - 1 < nlines else "?"
            ev = json.loads(bad) if bad != "?" else {}
            key = "coverage::%s trace step arg=%s+%s" % (ev.get("e"), ev.get("s"), ev.get("l"))
            vd.observe(key, {"base": base, "line": t.depth, "event": ev})
        else:
            ntr += 1
        vd.add_states(t)
        vd.cov["evaluations"] += nlines
    vd.cov["traces_validated_against_impl"] = ntr
    # 4. the Zwerg words on address sets
    pairs = [json.loads(l) for l in open(pf) if l.strip()]
    zdrv = os.path.join(bdir, "bin", "zwdrv")
    cmds, meta = [], []
    for base in [0, 2**63 - 2]:
        for pi, p in enumerate(pairs):
            for variant in range(3):
                A = aset_expr(p["a"], base, variant)
                B = aset_expr(p["b"], base, 0)
                progs = {"add": "%s %s add" % (A, B), "sub": "%s %s sub" % (A, B),
                         "overlap": "%s %s overlap" % (A, B),
                         "overlaps": "%s %s ?overlaps" % (A, B),
                         "contains": "%s %s ?contains" % (A, B),
                         "eq": "%s %s ?eq" % (A, B)}
                if variant == 0:
                    progs.update({"empty": "%s ?empty" % A, "length": "%s length" % A,
                                  "elem": "%s elem" % A, "relem": "%s relem" % A,
                                  "range": "%s range" % A, "low": "%s low" % A, "high": "%s high" % A,
                                  "show": '%s "%%s"' % A})
                    if pi % 16 and False:
                        pass
                if variant and pi % 5:
                    continue
                for w, q in progs.items():
                    cmds.append("\t".join(["run", str(len(cmds)), "max=100", zw.hexq(q)]))
                    meta.append((base, p, w, q))
    res = zw.run_driver(zdrv, cmds, wd, tag="aset")
    byid = {r.get("id"): r for r in res}
    for i, (base, p, w, q) in enumerate(meta):
        r = byid.get(str(i))
        vd.cov["evaluations"] += 1
        bad = None
        if r is None or r.get("status") != "ok":
            bad = "status"
        else:
            out = r["results"]
            tops = [s[-1] for s in out]
            def asv(v):
                return [[int(a) - base, int(b)] for a, b in v["v"]] if v["t"] == "aset" else None
            if w in ("add", "sub", "overlap"):
                exp = {"add": p["union"], "sub": p["diff"], "overlap": p["inter"]}[w]
                if len(tops) != 1 or asv(tops[0]) != exp:
                    bad = "result"
            elif w in ("overlaps", "contains", "eq", "empty"):
                if (len(out) == 1) != p[w]:
                    bad = "assertion"
            elif w == "length":
                if len(tops) != 1 or tops[0].get("v") != str(p["length"]):
                    bad = "length"
            elif w in ("elem", "relem"):
                exp = [e + base for e in p["elems"]]
                if w == "relem":
                    exp = exp[::-1]
                got = [int(t["v"]) for t in tops if t["t"] == "cst"]
                poss = [t["pos"] for t in tops]
                if got != exp or poss != list(range(len(exp))):
                    bad = "elements"
            elif w == "range":
                if [asv(t) for t in tops] != [[r_] for r_ in p["a"]]:
                    bad = "range"
            elif w == "low":
                exp = [str(p["a"][0][0] + base)] if p["a"] else []
                if [t.get("v") for t in tops] != exp:
                    bad = "low"
            elif w == "high":
                exp = [str(p["a"][-1][0] + p["a"][-1][1] + base)] if p["a"] else []
                if [t.get("v") for t in tops] != exp:
                    bad = "high"
            elif w == "show":
                import binascii
                txt = binascii.unhexlify(tops[0]["hex"]).decode() if tops and tops[0]["t"] == "str" else None
                hx = lambda x: "0" if x == 0 else "%#x" % x      # iostream's showbase leaves zero bare
                exp = ", ".join("[%s, %s)" % (hx(s + base), hx(s + l + base)) for s, l in p["a"])
                if p["a"] and txt != exp:
                    bad = "rendering '%s' vs '%s'" % (txt, exp)
        if bad:
            vd.observe("aset word %s a=[%s] b=[%s]" % (w, vec_s(p["a"]), vec_s(p["b"])),
                       {"query": q, "why": bad, "pair": p, "observed": r})
    vd.cov["distinct_nontrivial"] += len(pairs)
    vd.sample({"query": meta[len(meta) // 3][3]})
    return vd.finish(rule="(1) TLC: all reachable coverage vectors over addresses 0..N with every add/remove "
                     "argument, transcription of coverage.cc vs set algebra; (2) every canonical set x every "
                     "operation/argument replayed into coverage.cc at 4 base offsets (0, 2^32-4, 2^63-4, top of "
                     "the address space); (3) random call traces validated by TLC (CoverageTrace.tla); (4) the "
                     "Zwerg words on all pairs of sets over 0..3, sets built three different ways; non-trivial = "
                     "non-empty state and non-empty argument / distinct set pairs", exhaustive=True,
                     extra={"N": n, "bases": [str(b) for b in bases]})

def replay(path):
    print(open(path).read())
    return 0
