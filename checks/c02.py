"""C02: the raw view reports exactly the DIE tree stored in .debug_info."""
import os, sys, json, subprocess, re, glob, binascii
import common, tlc, zw, dwarfchk as D

PID = "C02"
Q_ENTRY = "raw entry (|D| [D, D label value, [D parent], [D child], [D attribute [label value, form value]], [D ?haschildren 1]])"
Q_UNIT = "raw unit (|U| [U offset, [U root], [U entry], U version])"
Q_ENTRY2 = "entry raw [offset, [parent offset], [child offset], [attribute label value]]"     # cooked Dwarf, DIEs switched to raw


def readelf_forest(path):
    """Independent ground truth: (offset, depth, tag-name, [(attr, form?)]) from readelf -wi."""
    out = subprocess.run(["readelf", "-wi", path], stdout=subprocess.PIPE, stderr=subprocess.PIPE).stdout.decode("utf-8", "replace")
    dies, units = [], []
    cur = None
    for line in out.splitlines():
        m = re.match(r"\s*Compilation Unit @ offset (0x[0-9a-f]+|0):", line)
        if m:
            units.append({"off": int(m.group(1), 16), "dies": []}); continue
        m = re.match(r"\s*<(\d+)><([0-9a-f]+)>: Abbrev Number: (\d+)(?: \((\w+)\))?", line)
        if m:
            if int(m.group(3)) == 0:
                cur = None; continue
            cur = {"off": int(m.group(2), 16), "depth": int(m.group(1)), "tag": m.group(4), "attrs": []}
            dies.append(cur); units[-1]["dies"].append(cur); continue
        m = re.match(r"\s*<([0-9a-f]+)>\s+(DW_AT_\w+|Unknown AT value: [0-9a-f]+)\s*:", line)
        if m and cur is not None:
            cur["attrs"].append(m.group(2))
    # parents from depth
    stack = []
    for u in units:
        stack = []
        for d in u["dies"]:
            while len(stack) > d["depth"]:
                stack.pop()
            d["parent"] = stack[-1]["off"] if stack else None
            stack.append(d)
    return units


def check_forest(vd, v, b, recs, key):
    """recs: driver records for (Q_ENTRY, Q_UNIT)."""
    ent, unit = recs
    F = v["forest"]
    if not ent or ent.get("status") != "ok" or not unit or unit.get("status") != "ok":
        vd.observe(key + " query failed", {"entry": ent, "unit": unit}); return False
    ok = True
    exp_order = v["raw_preorder"]
    got = [r[-1]["v"] for r in ent["results"]]
    got_ids = [D.ident(b, g[0]) for g in got]
    gattrs = D.gen_attrs(F)
    if got_ids != exp_order:
        vd.observe(key + " DIE order", {"expected": exp_order, "observed": got_ids, "file": b.path}); ok = False
    for g in got:
        i = D.ident(b, g[0])
        if i < 0:
            continue
        d = F["die"][i - 1]
        exp_par = v["raw_parent"][i - 1]
        par = [D.ident(b, x) for x in g[2]["v"]]
        kids = [D.ident(b, x) for x in g[3]["v"]]
        attrs = [(D.cst(a["v"][0]), D.cst(a["v"][1])) for a in g[4]["v"]]
        exp_attrs = gattrs[i]
        hc = len(g[5]["v"]) == 1
        why = None
        if D.cst(g[1]) != D.TAG[d["tag"]]: why = "tag"
        elif par != ([exp_par] if exp_par else []): why = "parent"
        elif kids != d["kids"]: why = "children"
        elif attrs != exp_attrs: why = "attributes (name, form)"
        elif hc != d["hc"]: why = "?haschildren"
        elif g[0]["pos"] != 0 and False: why = "pos"
        if why:
            vd.observe(key + " " + why, {"die": i, "expected": {"parent": exp_par, "kids": d["kids"], "attrs": exp_attrs, "hc": d["hc"]},
                                         "observed": {"parent": par, "kids": kids, "attrs": attrs, "hc": hc}, "file": b.path})
            ok = False
    # numbering of `raw entry`
    poss = [r[-1]["pos"] for r in ent["results"]]
    # units
    ug = [r[-1]["v"] for r in unit["results"]]
    exp_units = [(b.unit_off[i], F["units"][i]["root"], v["unit_dies"][i], F["units"][i]["ver"]) for i in range(len(F["units"]))]
    got_units = [(D.cst(u[0]), [D.ident(b, x) for x in u[1]["v"]], [D.ident(b, x) for x in u[2]["v"]], D.cst(u[3])) for u in ug]
    if [(o, [r], ds, ver) for o, r, ds, ver in exp_units] != got_units:
        vd.observe(key + " units", {"expected": exp_units, "observed": got_units, "file": b.path}); ok = False
    return ok


def run(tier):
    vd = common.Verdict(PID, tier)
    wd = common.scratch(PID)
    bdir = common.build("plain")
    drv = os.path.join(bdir, "bin", "zwdrv")
    # 1. forests from the model (every tree shape), with the model's own refinement check (iterator = pre-order)
    allv = []
    for n in ((3, 4, 5, 6) if tier == "quick" else (3, 4, 5, 6, 7)):
        allv += D.gen_forests("raw", n, wd)
    # with a dwz alt file: the raw view lists the units (and DIEs) of the alt file after those of the main file
    for n in ((4, 5) if tier == "quick" else (4, 5, 6)):
        allv += D.gen_forests("altnav", n, wd)
    # nesting far deeper than a compiler produces (a chain, a chain with a leaf next to every link, two units)
    allv += D.gen_forests("rawdeep", 136 if tier == "quick" else 160, wd, shards=3)
    bad_model = [v for v in allv if not v["ok"]["raw"]]
    if bad_model:
        vd.observe("model:all_dies_iterator does not visit the pre-order", {"forest": bad_model[0]["forest"]})
    vd.cov["states"] = len(allv); vd.cov["transitions"] = sum(len(v["raw_preorder"]) for v in allv)
    built = D.build_all(allv, wd, "raw")
    jobs = []
    for v, b in zip(allv, built):
        jobs.append((b.path, Q_ENTRY, False)); jobs.append((b.path, Q_UNIT, False))
    recs = D.run_queries(drv, jobs, wd, "raw")
    nok = 0
    for i, (v, b) in enumerate(zip(allv, built)):
        vd.cov["evaluations"] += 1
        shape = "units=%d dies=%d" % (len(v["forest"]["units"]), len(v["forest"]["die"]))
        dup = any(len(set(a["n"] for a in d["attrs"])) < len(d["attrs"]) for d in v["forest"]["die"])
        if check_forest(vd, v, b, recs[2 * i: 2 * i + 2], "generated forest (%s%s):" % (shape, ", repeated attribute names" if dup else "")):
            nok += 1
    vd.cov["distinct_nontrivial"] = nok
    vd.cov["traces_validated_against_impl"] = nok
    # 2. header-only units (a unit without any DIE)
    hv = [v for v in allv if len(v["forest"]["units"]) >= 2][:6]
    for k, v in enumerate(hv):
        import copy, dwarfgen
        gf = D.to_gen_forest(v["forest"])
        gf["units"].insert(1, {"kind": "cu", "version": 4, "table": 99, "root": None})
        o, offs, _ = dwarfgen.build(gf, wd, "hdr%d" % k)
        b = D.Built(o, offs)
        r = D.run_queries(drv, [(o, "raw entry offset", False), (o, "raw unit offset", False)], wd, "hdr")
        vd.cov["evaluations"] += 1
        ids = [b.rev.get(D.cst(x[-1]), -1) for x in (r[0] or {}).get("results", [])]
        if ids != v["raw_preorder"]:
            vd.observe("header-only unit: DIE listing", {"expected": v["raw_preorder"], "observed": ids, "file": o})
    # 3. the repository's samples and compiler output against an independent dumper
    tests = os.path.join(common.REPO, "tests")
    samples = sorted(glob.glob(os.path.join(tests, "*.o")) + [os.path.join(tests, x) for x in
               ("twocus", "a1.out", "dwz-partial", "dwz-dupfile", "dwz-partial2-1", "dwz-partial3-1", "duplicate-const",
                "inconsistent-types", "testfile_const_type", "haschildren_childless", "empty")])
    cfile = os.path.join(wd, "c.c")
    open(cfile, "w").write("struct s { int a; char b[3]; }; enum e { A, B = -1 }; typedef struct s t;\n"
                           "static int f (t *p, enum e x) { return p->a + x; }\nint g (void) { t v = {1, {0}}; return f (&v, B); }\n")
    for ver in (2, 3, 4, 5):
        o = os.path.join(wd, "c%d.o" % ver)
        if subprocess.run(["gcc", "-c", "-g", "-gdwarf-%d" % ver, "-o", o, cfile], stdout=subprocess.PIPE, stderr=subprocess.PIPE).returncode == 0:
            samples.append(o)
    def usable(s):
        # files with a dwz alternate file (its DIEs are listed as well) and files readelf calls corrupt are left out
        pr = subprocess.run(["readelf", "-SW", "-wi", s], stdout=subprocess.PIPE, stderr=subprocess.PIPE)
        return b"gnu_debugaltlink" not in pr.stdout and b"Corrupt" not in pr.stderr
    samples = [s for s in samples if usable(s)]
    jobs = [(s, "raw entry [offset, [parent offset], [attribute label \"%s\"]]", False) for s in samples]
    recs = D.run_queries(drv, jobs, wd, "samples")
    for s, r in zip(samples, recs):
        vd.cov["evaluations"] += 1
        units = readelf_forest(s)
        ref = [(d["off"], d["parent"], d["attrs"]) for u in units for d in u["dies"]]
        if r is None or r.get("status") not in ("ok",):
            if ref:
                vd.observe("sample %s: raw entry failed" % os.path.basename(s), {"observed": r})
            continue
        got = []
        for x in r["results"]:
            g = x[-1]["v"]
            got.append((D.cst(g[0]), (D.cst(g[1]["v"][0]) if g[1]["v"] else None),
                        [binascii.unhexlify(a["hex"]).decode() for a in g[2]["v"]]))

        if [(a, b) for a, b, c in got] != [(a, b) for a, b, c in ref]:
            vd.observe("sample %s: DIE tree differs from readelf" % os.path.basename(s),
                       {"n_expected": len(ref), "n_observed": len(got)})
        else:
            for (o1, p1, a1), (o2, p2, a2) in zip(got, ref):
                a2n = [x if x.startswith("DW_AT_") else None for x in a2]
                if len(a1) != len(a2) or any(y is not None and x != y for x, y in zip(a1, a2n)):
                    vd.observe("sample %s: attributes of DIE %#x differ from readelf" % (os.path.basename(s), o1),
                               {"observed": a1, "readelf": a2}); break
            else:
                vd.cov["distinct_nontrivial"] += 1
    vd.sample({"forest": allv[len(allv) // 2]["forest"]})
    vd.sample({"samples": [os.path.basename(s) for s in samples][:10]})
    return vd.finish(rule="tla/Forests.tla family raw: every parent vector over 3..%d DIEs (all tree shapes, 1..n units, DWARF 2-5 "
                     "headers mixed in one file, attribute lists incl. repeated names and several forms, a childless DIE whose "
                     "abbreviation claims children); tla/Dwarf.tla checks that the transcribed all_dies_iterator visits the "
                     "pre-order with the right parent stack; each forest is assembled (gen/dwarfgen.py) and `raw entry`, parent, "
                     "child, attribute (label, form), ?haschildren, `raw unit` compared by DIE identity; plus %d sample / "
                     "compiler-produced objects (gcc -gdwarf-2..5) against readelf -wi; non-trivial = inputs whose whole tree matched"
                     % (6 if tier == "quick" else 7, len(samples)), exhaustive=True)

def replay(path):
    print(open(path).read())
    return 0
