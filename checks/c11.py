"""C11: core words on integers, strings and sequences do what their documentation says."""
import os, sys, json, random, subprocess, itertools
import common, tlc, zw, engine

PID = "C11"


def gen_words(wd, shards=16):
    def one(sh):
        out = os.path.join(wd, "words-%d.ndjson" % sh)
        r = tlc.run_tlc("WordGen", constants={"OutFile": out, "Shard": sh, "NShards": shards}, workers=1,
                        timeout=1500, heap="6g")
        return out, r
    vecs = []
    for out, r in common.parallel(one, list(range(shards)), workers=shards):
        if not r.ok or not os.path.exists(out):
            raise common.ToolError("WordGen failed\n" + r.out[-2000:])
        vecs += [json.loads(l) for l in open(out) if l.strip()]
        os.unlink(out)
    return vecs


def run(tier):
    vd = common.Verdict(PID, tier)
    wd = common.scratch(PID)
    bdir = common.build("plain")
    # 1. the cached type profile: model and every history on the real stack class
    r = tlc.run_tlc("Stack", constants={"Codes": (2, 3, 4), "MaxDepth": 6 if tier == "quick" else 8, "MutPop": "none"},
                    spec="Spec", invariants=["ProfileIsTopFour"], view="View", workers=8, timeout=1500)
    if r.violated:
        vd.observe("model:" + r.violated, {"output": r.out[-3000:]})
    elif not r.ok:
        raise common.ToolError("TLC Stack failed\n" + r.out[-2000:])
    vd.add_states(r)
    ops = ["u0", "u1", "u2", "o", "d1", "d2", "c"]
    L = 6 if tier == "quick" else 7
    hf = os.path.join(wd, "hist.txt")
    nh = 0
    with open(hf, "w") as f:
        for n in range(1, L + 1):
            for h in itertools.product(ops, repeat=n):
                # prune histories that underflow at once (they are still legal: errors are skipped)
                f.write(",".join(h) + "\n"); nh += 1
        # deep stacks: push 5..8 then pop down
        for deep in range(5, 9):
            for kinds in itertools.product("012", repeat=3):
                f.write(",".join(["u" + kinds[i % 3] for i in range(deep)] + ["o"] * deep) + "\n"); nh += 1
                f.write(",".join(["u" + kinds[i % 3] for i in range(deep)] + ["d3", "o", "o", "c", "o"]) + "\n"); nh += 1
    pr = subprocess.run([os.path.join(bdir, "bin", "stackdrv"), hf], stdout=subprocess.PIPE, stderr=subprocess.PIPE, timeout=1800)
    lines = pr.stdout.decode().splitlines()
    if pr.returncode != 0 or len(lines) != nh:
        vd.observe("stackdrv crash", {"rc": pr.returncode, "stderr": pr.stderr.decode()[-1000:]})
    hists = open(hf).read().splitlines()
    nbad = 0
    for h, line in zip(hists, lines):
        vd.cov["evaluations"] += 1
        for tok in line.split():
            if tok != "E":
                c, rcomp = tok.split(":")
                if c != rcomp:
                    nbad += 1
                    if nbad <= 20:
                        vd.observe("stack profile after history " + h, {"history": h, "profiles": line})
                    break
    vd.cov["traces_validated_against_impl"] = nh
    # 2. words x operand pool x histories, expected from the meaning layer
    vecs = gen_words(wd)
    engine.replay(vd, vecs, bdir, wd, PID, check_illformed=False, keyprefix="")
    vd.sample({"histories": nh, "example": hists[5000] if len(hists) > 5000 else hists[-1]})
    return vd.finish(rule="(1) tla/Stack.tla: profile = types of the top four values after every push/pop/drop history up to "
                     "depth %d (TLC, all reachable states); every history of length <= %d over {push cst, push str, push seq, pop, "
                     "drop 1, drop 2, copy} plus deep push/pop runs replayed on the real `stack`, cached profile vs recomputed "
                     "after every step; (2) tla/WordGen.tla: 14 unary and 17 binary core words and rot on every operand tuple of a "
                     "17-value pool (integers in dec/hex/oct, strings incl. empty and overlapping needles, nested and heterogeneous "
                     "sequences, a closure) with four different stack histories below the operands, and position numbering "
                     "(elem WORD pos); expected results and diagnostics from Zw!Word" % (6 if tier == "quick" else 8, L),
                     exhaustive=True)

def replay(path):
    import c01
    return c01.replay(path)
