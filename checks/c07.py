"""C07: attribute values decode to the right type, value, sign and constant domain."""
import collections, os, sys, json, random, subprocess, binascii, re
import common, tlc, zw, dwarfchk as D
sys.path.insert(0, os.path.join(common.VERIF, "gen"))
import dwarfgen

PID = "C07"
WIDTH = {"data1": 8, "data2": 16, "data4": 32, "data8": 64, "block1": 32, "block1x1": 8, "block1x2": 16, "block1x8": 64}
ATE = {"signed": 5, "unsigned": 7, "boolean": 2, "signed_char": 6, "unsigned_char": 8, "float": 4}
T = {"cu": 0x11, "base": 0x24, "typedef": 0x16, "const": 0x26, "volatile": 0x35, "enum": 0x04, "enr": 0x28, "var": 0x34,
     "pointer": 0x0f, "ptrmember": 0x1f, "struct": 0x13, "tvp": 0x30}
AT = {"name": 3, "type": 0x49, "encoding": 0x3e, "byte_size": 0x0b, "const_value": 0x1c}


def bits(vc, w):
    return {"zero": 0, "one": 1, "top": 1 << (w - 1), "max": (1 << w) - 1}[vc]


def build_desc_forest(descs):
    """One compile unit; per descriptor a little group of DIEs.  Returns forest and {desc index: die id of the holder}."""
    nid = [1]
    def new():
        nid[0] += 1
        return nid[0]
    kids = []
    holder = {}
    for k, x in enumerate(descs):
        d = x["d"]
        w = 64 if d["form"] in ("sdata", "udata") else WIDTH[d["form"]]
        raw = bits(d["vc"], w)
        # the value as stored
        if d["form"] == "sdata":
            val = raw - (1 << 64) if raw >> 63 else raw
            cv = {"name": AT["const_value"], "form": "sdata", "value": val}
        elif d["form"] == "udata":
            cv = {"name": AT["const_value"], "form": "udata", "value": raw}
        elif d["form"].startswith("block1"):
            cv = {"name": AT["const_value"], "form": "block1", "value": list(raw.to_bytes(w // 8, "little"))}
        else:
            cv = {"name": AT["const_value"], "form": d["form"], "value": raw}
        def base():
            i = new()
            kids.append({"id": i, "tag": T["base"], "children": [], "attrs": [
                {"name": AT["name"], "form": "string", "value": "b%d" % i}, {"name": AT["byte_size"], "form": "data1", "value": w // 8},
                {"name": AT["encoding"], "form": "data1", "value": ATE[d["enc"]]}]})
            return i
        def wrap(tag, target):
            i = new()
            kids.append({"id": i, "tag": T[tag], "children": [], "attrs": [{"name": AT["type"], "form": "ref4", "value": target}]})
            return i
        ty = d["ty"]
        tref = None
        enum_attrs = None
        if ty == "base": tref = base()
        elif ty == "typedef-base": tref = wrap("typedef", base())
        elif ty == "cv-typedef-base": tref = wrap("const", wrap("typedef", wrap("volatile", base())))
        elif ty == "deep-typedef-base":
            tref = base()
            for lvl in range(12):
                tref = wrap(("typedef", "const", "volatile")[lvl % 3], tref)
        elif ty == "pointer": tref = wrap("pointer", base())
        elif ty == "ptrmember": tref = wrap("ptrmember", base())
        elif ty == "struct":
            tref = new(); kids.append({"id": tref, "tag": T["struct"], "children": [], "attrs": [{"name": AT["name"], "form": "string", "value": "S"}]})
        elif ty in ("enum-typed", "enum-typedef-typed", "enum-deep-typed", "enum-untyped"):
            under = None
            if ty == "enum-typed": under = base()
            elif ty == "enum-typedef-typed": under = wrap("typedef", base())
            elif ty == "enum-deep-typed":
                under = base()
                for lvl in range(12):
                    under = wrap(("typedef", "volatile", "const")[lvl % 3], under)
            eid = new()
            enrs = []
            forms = {"none": [], "sdata": ["sdata", "sdata"], "udata": ["udata"], "mixed": ["sdata", "udata"]}[d["enrs"]]
            if d["holder"] == "enr":
                hid = new()
                enrs.append({"id": hid, "tag": T["enr"], "children": [], "attrs": [{"name": AT["name"], "form": "string", "value": "E"}, cv]})
                holder[k] = hid
                # its own form is one of the sibling forms already
                forms = [f for f in forms]
                if d["form"] in forms:
                    forms.remove(d["form"])
            for f in forms:
                enrs.append({"id": new(), "tag": T["enr"], "children": [], "attrs": [{"name": AT["name"], "form": "string", "value": "X"},
                                                                                      {"name": AT["const_value"], "form": f, "value": 1}]})
            ea = [{"name": AT["name"], "form": "string", "value": "e"}]
            if under is not None:
                ea.append({"name": AT["type"], "form": "ref4", "value": under})
            kids.append({"id": eid, "tag": T["enum"], "children": enrs, "attrs": ea})
            tref = eid
        if d["holder"] == "var":
            hid = new()
            at = [{"name": AT["name"], "form": "string", "value": "v"}]
            if tref is not None:
                at.append({"name": AT["type"], "form": "ref4", "value": tref})
            at.append(cv)
            kids.append({"id": hid, "tag": T["var"] if k % 2 else T["tvp"], "children": [], "attrs": at})
            holder[k] = hid
    forest = {"units": [{"kind": "cu", "version": 4, "table": 0,
                         "root": {"id": 1, "tag": T["cu"], "children": kids, "attrs": [{"name": AT["name"], "form": "string", "value": "c07.c"}]}}]}
    return forest, holder


def expect_value(kind, vc, w):
    raw = bits(vc, w)
    if kind == "signed":
        return raw - (1 << w) if raw >> (w - 1) else raw
    return raw


def run(tier):
    vd = common.Verdict(PID, tier)
    wd = common.scratch(PID)
    rng = random.Random(common.seed())
    bdir = common.build("plain")
    drv = os.path.join(bdir, "bin", "zwdrv")
    out = os.path.join(wd, "atval.ndjson")
    # the switch over the forms as it was before fix 433e4b2 does not satisfy Transparent (self-test of the model)
    rp = tlc.run_tlc("AtValGen", constants={"OutFile": out + ".pinned", "PinnedForms": True}, workers=1, timeout=900)
    if '"FORMS", FALSE' not in rp.out.replace("\n", " "):
        raise common.ToolError("AtVal.tla: the pinned switch is not caught\n" + rp.out[-1500:])
    r = tlc.run_tlc("AtValGen", constants={"OutFile": out, "PinnedForms": False}, workers=1, timeout=900)
    if not r.ok or not os.path.exists(out):
        raise common.ToolError("AtValGen failed\n" + r.out[-2000:])
    allrecs_ = [json.loads(l) for l in open(out) if l.strip()]
    descs = [x for x in allrecs_ if "d" in x]
    enumattrs = [x for x in allrecs_ if "enumattr" in x]
    formrows = [x for x in allrecs_ if "formrow" in x]
    if '"FORMS", TRUE, TRUE' not in r.out.replace("\n", " "):
        vd.observe("model:a form of AtVal!FormTable does not yield its datum (Transparent / DirectIsDirect)",
                   {"rows": [x for x in formrows if x["branch"] == "unhandled"], "output": r.out[-1500:]})
    m = re.search(r'"ATVAL",\s*(\d+),\s*(\d+)', r.out.replace("\n", " "))
    if m and int(m.group(2)) > 0:
        bad = [x for x in descs if x["documented"] != "any" and x["code"] != x["documented"]]
        vd.observe("model:decision table disagrees with the documented rule", {"descriptors": bad[:5]})
    vd.cov["states"] = len(descs); vd.cov["transitions"] = len(descs)
    use = descs if tier == "thorough" else rng.sample(descs, min(700, len(descs)))
    # a twin of the file: the same layout (the same DIE offsets) with every encoding swapped for its
    # counterpart of the other signedness.  Both are read in one process, the twin second: what was learnt
    # about a type DIE of one file must not be applied to the DIE at the same offset of the other.
    SWAP = {"signed": "unsigned", "unsigned": "signed", "signed_char": "unsigned_char", "unsigned_char": "signed_char"}
    def dkey(d):
        return json.dumps(d, sort_keys=True)
    bykey = {dkey(x["d"]): x for x in descs}
    use2 = []
    for x in use:
        d2 = dict(x["d"]); d2["enc"] = SWAP.get(d2["enc"], d2["enc"])
        use2.append(bykey.get(dkey(d2), x))
    forest, holder = build_desc_forest(use)
    forest2, holder2 = build_desc_forest(use2)
    o, offs, _ = dwarfgen.build(forest, wd, "c07")
    ot, offst, _ = dwarfgen.build(forest2, wd, "c07twin")
    b = D.Built(o, offs)
    bt = D.Built(ot, offst)
    if [b.off[holder[k]] for k in range(len(use))] != [bt.off[holder2[k]] for k in range(len(use2))]:
        raise common.ToolError("C07: the twin file does not have the layout of the first")
    # one query per DIE: an error on an uninterpreted combination must not hide the others
    q = "entry (offset == %d) [offset, [@AT_const_value], [attribute ?AT_const_value value]]"
    jobs = [(o, q % b.off[holder[k]], False) for k in range(len(use))] \
         + [(ot, q % bt.off[holder2[k]], False) for k in range(len(use2))]
    allrecs = D.run_queries(drv, jobs, wd, "c07")
    nontriv = 0
    for use, holder, recs, ftag in ((use, holder, allrecs[:len(use)], ""), (use2, holder2, allrecs[len(use):], "twin file read second: ")):
        got = {}
        failed = {}
        for k, rec in enumerate(recs):
            if rec and rec.get("status") == "ok" and len(rec["results"]) == 1:
                got[holder[k]] = rec["results"][0][-1]["v"]
            else:
                failed[holder[k]] = rec
        for k, x in enumerate(use):
            d = x["d"]
            vd.cov["evaluations"] += 1
            g = got.get(holder[k])
            key = ftag + "const_value form=%s holder=%s type=%s enc=%s enumerators=%s value=%s" % (d["form"], d["holder"], d["ty"], d["enc"], d["enrs"], d["vc"])
            if g is None:
                # an error or a diagnostic instead of a value: fine where the documented rule does not decide
                if x["documented"] != "any":
                    vd.observe(key + ": no value (%s)" % (failed.get(holder[k]) or {}).get("err", "?"), {"observed": failed.get(holder[k])})
                continue
            vals, vals2 = g[1]["v"], g[2]["v"]
            if json.dumps(vals, sort_keys=True) != json.dumps(vals2, sort_keys=True):
                vd.observe(key + ": @AT_const_value differs from attribute value", {"a": vals, "b": vals2})
            w = 64 if d["form"] in ("sdata", "udata") else WIDTH[d["form"]]
            doc = x["documented"]
            if doc == "any":
                # not determined by the documented rule: any integral reading of the bits, a block, or nothing with a diagnostic
                if vals and vals[0]["t"] == "cst":
                    if int(vals[0]["v"]) not in (expect_value("signed", d["vc"], w), expect_value("unsigned", d["vc"], w)):
                        vd.observe(key + ": value is not a reading of the stored bits", {"observed": vals})
                continue
            if len(vals) != 1 or vals[0]["t"] != "cst":
                vd.observe(key + ": expected one constant", {"observed": vals}); continue
            v0 = vals[0]
            want = expect_value(doc if doc in ("signed",) else "unsigned", d["vc"], w)
            dom_ok = {"signed": v0["dom"] == "dec", "unsigned": v0["dom"] == "dec", "bool": v0["dom"] == "bool",
                      "address": v0["dom"] not in ("dec", "bool")}[doc]
            if int(v0["v"]) != want or not dom_ok:
                vd.observe(key + ": decoded as %s (%s), expected %s %d" % (v0["v"], v0["dom"], doc, want), {"observed": v0})
            else:
                nontriv += 1
    # other attribute classes: strings, references, flags, addresses, enumerated attributes, location
    kids = []
    specs = [("string", 3, "string", b"a\xffb", ("str", b"a\xffb")), ("flag1", 0x3f, "flag", 1, ("cst", 1, "bool")),
             ("flag0", 0x3f, "flag", 0, ("cst", 0, "bool")), ("flagp", 0x3f, "flag_present", 1, ("cst", 1, "bool")),
             ("lowpc", 0x11, "addr", 0xfffffffffffffff0, ("cst", 0xfffffffffffffff0, "addr")),
             ("lang", 0x13, "data1", 0x0c, ("named", "DW_LANG_C99")), ("lang2", 0x13, "data2", 0x8001, ("named", "DW_LANG_Mips_Assembler")),
             ("enc", 0x3e, "data1", 0x07, ("named", "DW_ATE_unsigned")), ("acc", 0x32, "data1", 2, ("named", "DW_ACCESS_protected")),
             ("inl", 0x20, "udata", 3, ("named", "DW_INL_declared_inlined")), ("inl2", 0x20, "data1", 3, ("named", "DW_INL_declared_inlined")),
             ("line", 0x3b, "data2", 65535, ("cst", 65535, None)), ("bytesz", 0x0b, "data4", 0x80000000, ("cst", 0x80000000, "dec")),
             ("upper", 0x2f, "sdata", -7, ("cst", -7, "dec")), ("stmt", 0x10, "sec_offset", 0, ("cst", 0, "hexish")),
             ("ref", 0x49, "ref4", 1, ("die", 1)), ("refu", 0x49, "ref_udata", 1, ("die", 1)), ("refa", 0x49, "ref_addr", 1, ("die", 1)),
             ("strp", 3, "strp", b"pooled", ("str", b"pooled")),
             # the dwz alt file: a string of its .debug_str, a DIE of its .debug_info (at the offset of a main-file DIE)
             ("strpalt", 3, "GNU_strp_alt", b"alt\xfepooled", ("str", b"alt\xfepooled")), ("refalt", 0x49, "GNU_ref_alt", 901, ("altdie", 901))]
    for i, (nm, atn, form, val, exp) in enumerate(specs):
        kids.append({"id": 100 + i, "tag": 0x34, "children": [], "attrs": [{"name": atn, "form": form, "value": val}]})
    f2 = {"units": [{"kind": "cu", "version": 4, "table": 0, "root": {"id": 1, "tag": 0x11, "children": kids, "attrs": []}}],
          "alt_units": [{"kind": "pu", "version": 4, "table": 0, "root": {"id": 900, "tag": 0x3c, "attrs": [], "children": [
              {"id": 901, "tag": 0x24, "children": [], "attrs": [{"name": 3, "form": "strp", "value": b"alt\xfepooled"}]}]}}]}
    o2, offs2, _ = dwarfgen.build(f2, wd, "c07b")
    b2 = D.Built(o2, offs2)
    r2 = D.run_queries(drv, [(o2, "entry (offset != 0xb) [offset, [attribute value]]", False)], wd, "c07b")[0]
    if not r2 or r2.get("status") != "ok":
        vd.observe("attribute class query failed", {"observed": r2})
    else:
        gotb = {b2.rev.get(D.cst(x[-1]["v"][0]), -1): x[-1]["v"][1]["v"] for x in r2["results"]}
        for i, (nm, atn, form, val, exp) in enumerate(specs):
            vd.cov["evaluations"] += 1
            g = gotb.get(100 + i)
            ok = g is not None and len(g) == 1
            if ok:
                v0 = g[0]
                if exp[0] == "str": ok = v0["t"] == "str" and binascii.unhexlify(v0["hex"]) == exp[1]
                elif exp[0] == "cst":
                    ok = v0["t"] == "cst" and int(v0["v"]) == exp[1]
                    if ok and exp[2] == "bool": ok = v0["dom"] == "bool"
                    if ok and exp[2] == "dec": ok = v0["dom"] == "dec"
                    if ok and exp[2] in ("addr", "hexish"): ok = v0["show"].startswith("0x") or exp[1] == 0
                elif exp[0] == "named": ok = v0["t"] == "cst" and v0["show"] == exp[1]
                elif exp[0] == "die": ok = v0["t"] == "die" and not v0.get("alt") and b2.rev.get(v0["off"]) == exp[1]
                elif exp[0] == "altdie": ok = v0["t"] == "die" and v0.get("alt") and D.die_id(b2, v0)[0] == exp[1]
            if not ok:
                vd.observe("attribute %s (%s) decodes wrongly" % (nm, form), {"expected": str(exp), "observed": g})
            else:
                nontriv += 1
    # enumerated attributes: the whole table of tla/AtVal.tla (EnumAttrs) x every enumerator of the family in
    # <dwarf.h> x the constant forms
    sys.path.insert(0, os.path.join(common.VERIF, "gen"))
    import headers
    H = dict(headers.dwarf_constants())
    ekids, eexp = [], {}
    for ea in enumattrs:
        fam = ea["enumattr"]["family"]
        byval = collections.defaultdict(list)
        for n, v in H.items():
            if n.startswith(fam) and not n.endswith(("_lo_user", "_hi_user")):
                byval[v].append(n)
        for v, names in sorted(byval.items()):
            for form in ea["forms"]:
                if form == "data1" and v > 0xff:
                    continue
                i = 5000 + len(ekids)
                ekids.append({"id": i, "tag": 0x34, "children": [], "attrs": [{"name": ea["enumattr"]["code"], "form": form, "value": v}]})
                eexp[i] = (ea["enumattr"]["at"], form, v, names)
    f3 = {"units": [{"kind": "cu", "version": 4, "table": 0, "root": {"id": 1, "tag": 0x11, "children": ekids, "attrs": []}}]}
    o3, offs3, _ = dwarfgen.build(f3, wd, "c07e")
    b3 = D.Built(o3, offs3)
    r3 = D.run_queries(drv, [(o3, "entry (offset != 0xb) [offset, [attribute value]]", False)], wd, "c07e")[0]
    if not r3 or r3.get("status") != "ok":
        vd.observe("enumerated attribute query failed", {"observed": r3})
    else:
        gote = {b3.rev.get(D.cst(x[-1]["v"][0]), -1): x[-1]["v"][1]["v"] for x in r3["results"]}
        for i, (at, form, v, names) in sorted(eexp.items()):
            vd.cov["evaluations"] += 1
            g = gote.get(i)
            if g is None or len(g) != 1 or g[0]["t"] != "cst" or int(g[0]["v"]) != v or g[0]["show"] not in names:
                vd.observe("enumerated attribute DW_AT_%s = %d (%s) is not shown as %s" % (at, v, form, "/".join(names)), {"observed": g})
            else:
                nontriv += 1
    # the addresses a DIE covers: low_pc with high_pc as an address (DWARF 2, 3) or as an offset (DWARF 4, three
    # constant forms), DW_AT_ranges with disjoint, adjacent, overlapping and unordered ranges -- as a set
    def cover(pairs):
        out = []
        for lo, hi in sorted(p for p in pairs if p[1] > p[0]):
            if out and lo <= out[-1][1]:
                out[-1][1] = max(out[-1][1], hi)
            else:
                out.append([lo, hi])
        return [(lo, hi - lo) for lo, hi in out]
    # forms and classes (AtVal!FormTable): the same datum stored in every form of its class -- in the DIE, in a
    # string section, in a table of the unit behind an index -- in units of every version that has the form;
    # `value' yields the datum
    fkids = {2: [], 3: [], 4: [], 5: []}
    fexp = {}
    STRS = [b"s-one", b"", b"s\xfftwo", b"x" * 300]
    ADDRS = [0, 0x1234, 2**63, 2**64 - 16]
    RNGS = [[(0x100, 0x110)], [(0x300, 0x340), (0x320, 0x330), (0x100, 0x101)], [(0x500, 0x510), (0x510, 0x520)]]
    def v5ranges(pairs, k):
        out = []
        for j, (lo, hi) in enumerate(pairs):
            kind = ("start_end", "start_length", "startx_endx", "startx_length", "offset_pair")[(k + j) % 5]
            if kind in ("start_length", "startx_length"): out.append((kind, lo, hi - lo))
            elif kind == "offset_pair":
                out.append(("base_address" if (k + j) % 2 else "base_addressx", lo - 0x10)); out.append((kind, 0x10, hi - lo + 0x10))
            else: out.append((kind, lo, hi))
        return out
    fid = [20000]
    for row in formrows:
        fr = row["formrow"]
        for ver in (2, 3, 4, 5):
            if ver < fr["minver"] or (fr["form"].startswith("GNU_") and ver != 4):
                continue
            if fr["form"] in ("rangelist", "loclist") and False:
                continue
            data = {"string": STRS, "address": ADDRS, "rnglist": RNGS, "loclist": []}[fr["class"]]
            for k, datum in enumerate(data):
                fid[0] += 1
                if fr["class"] == "string":
                    at = {"name": (3, 0x25, 0x1b)[k % 3], "form": fr["form"], "value": datum}
                elif fr["class"] == "address":
                    at = {"name": (0x11, 0x52)[k % 2], "form": fr["form"], "value": datum}
                else:
                    if ver < 3:
                        continue
                    at = {"name": 0x55, "form": fr["form"], "value": v5ranges(datum, k) if ver >= 5 else datum}
                fkids[ver].append({"id": fid[0], "tag": 0x2e, "children": [], "attrs": [at]})
                fexp[fid[0]] = (fr["form"], fr["class"], ver, datum)
    funits = [{"kind": "cu", "version": ver, "table": 50 + ver, "root": {"id": 19990 + ver, "tag": 0x11, "children": fkids[ver],
               "attrs": [{"name": 0x11, "form": "addr", "value": 0}]}} for ver in (2, 3, 4, 5)]
    of, offsf, _ = dwarfgen.build({"units": funits}, wd, "c07forms")
    bf = D.Built(of, offsf)
    jobs = [(of, "entry (offset == %d) [[attribute value], [address]]" % bf.off[i], False) for i in sorted(fexp)]
    for i, rec in zip(sorted(fexp), D.run_queries(drv, jobs, wd, "c07forms")):
        form, cls, ver, datum = fexp[i]
        vd.cov["evaluations"] += 1
        key = "DW_FORM_%s (class %s, version %d unit)" % (form, cls, ver)
        if not rec or rec.get("status") != "ok" or len(rec["results"]) != 1:
            vd.observe(key + ": no value (%s)" % (rec or {}).get("err", "?"), {"observed": rec, "datum": str(datum)}); continue
        vals = rec["results"][0][-1]["v"][0]["v"]
        aset = rec["results"][0][-1]["v"][1]["v"]
        ok = len(vals) == 1
        if ok and cls == "string":
            ok = vals[0]["t"] == "str" and binascii.unhexlify(vals[0]["hex"]) == datum
        elif ok and cls == "address":
            ok = vals[0]["t"] == "cst" and int(vals[0]["v"]) == datum and vals[0]["dom"] not in ("dec", "bool")
        elif ok and cls == "rnglist":
            want = cover(datum)
            got = [(int(a), int(l)) for a, l in vals[0]["v"]] if vals[0]["t"] == "aset" else None
            got2 = [(int(a), int(l)) for a, l in aset[0]["v"]] if aset and aset[0]["t"] == "aset" else None
            ok = got == want and got2 == want
        if not ok:
            vd.observe(key + ": `value' does not yield the datum", {"expected": str(datum)[:200], "observed": vals, "address": aset})
        else:
            nontriv += 1
    acases = [(4, [("low", "addr", 0x1000), ("high", "data8", 0x20)], [(0x1000, 0x1020)]),
              (4, [("low", "addr", 0x1000), ("high", "udata", 0x20)], [(0x1000, 0x1020)]),
              (4, [("low", "addr", 2**63), ("high", "data1", 0xff)], [(2**63, 2**63 + 0xff)]),
              (3, [("low", "addr", 0x1000), ("high", "addr", 0x1020)], [(0x1000, 0x1020)]),
              (2, [("low", "addr", 0x4000), ("high", "addr", 0x4001)], [(0x4000, 0x4001)]),
              (4, [("ranges", "rangelist", [(0x100, 0x110), (0x200, 0x220)])], [(0x100, 0x110), (0x200, 0x220)]),
              (4, [("ranges", "rangelist", [(0x100, 0x110), (0x110, 0x120)])], [(0x100, 0x110), (0x110, 0x120)]),
              (3, [("ranges", "rangelist", [(0x300, 0x340), (0x320, 0x330), (0x100, 0x101)])], [(0x300, 0x340), (0x320, 0x330), (0x100, 0x101)]),
              (4, [("ranges", "rangelist", [(0x500, 0x510), (0x508, 0x520)])], [(0x500, 0x510), (0x508, 0x520)]),
              # DWARF 5: the low address behind an index, the ranges in .debug_rnglists by offset and by index
              (5, [("low", "addrx", 0x1000), ("high", "data8", 0x20)], [(0x1000, 0x1020)]),
              (5, [("low", "addrx1", 2**63), ("high", "udata", 0xff)], [(2**63, 2**63 + 0xff)]),
              (5, [("ranges", "rangelist", [(0x300, 0x340), (0x320, 0x330), (0x100, 0x101)])], [(0x300, 0x340), (0x320, 0x330), (0x100, 0x101)]),
              (5, [("ranges", "rnglistx", [("start_length", 0x100, 0x10), ("base_addressx", 0x1000), ("offset_pair", 0, 0x20), ("startx_endx", 0x110, 0x120)])],
               [(0x100, 0x110), (0x1000, 0x1020), (0x110, 0x120)]),
              (5, [("ranges", "rnglistx", [("startx_length", 0x500, 0x10), ("start_end", 0x508, 0x520)])], [(0x500, 0x510), (0x508, 0x520)]),
              # offsets without a base entry count from the unit's low_pc (DWARF 2-4: .debug_ranges; 5: DW_RLE_offset_pair)
              (5, [("ranges", "rnglistx", [("offset_pair", 0x10, 0x20), ("offset_pair", 0x40, 0x48)])], [(0x7010, 0x7020), (0x7040, 0x7048)], 0x7000),
              (4, [("ranges", "rangelist", [(0x10, 0x20), (0x40, 0x48)])], [(0x7010, 0x7020), (0x7040, 0x7048)], 0x7000),
              (3, [("ranges", "rangelist", [(0x10, 0x20)])], [(0x9010, 0x9020)], 0x9000)]
    ATC = {"low": 0x11, "high": 0x12, "ranges": 0x55}
    aunits, aexp = [], {}
    for k, case in enumerate(acases):
        ver, ats, pairs = case[:3]
        cubase = case[3] if len(case) > 3 else 0
        did = 7000 + k
        aexp[did] = cover(pairs)
        aunits.append({"kind": "cu", "version": ver, "table": k, "root": {"id": 7100 + k, "tag": 0x11, "attrs": [{"name": 0x11, "form": "addr", "value": cubase}],
                       "children": [{"id": did, "tag": 0x2e, "children": [], "attrs": [{"name": ATC[n], "form": f, "value": v} for n, f, v in ats]}]}})
    oa, offsa, _ = dwarfgen.build({"units": aunits}, wd, "c07addr")
    ba = D.Built(oa, offsa)
    ra = D.run_queries(drv, [(oa, "entry ?TAG_subprogram (|D| [D, [D address], [D address low], [D address high]])", False)], wd, "c07addr")[0]
    if not ra or ra.get("status") != "ok":
        vd.observe("address query failed", {"observed": ra})
    else:
        for x in ra["results"]:
            g = x[-1]["v"]
            did = D.ident(ba, g[0])
            vd.cov["evaluations"] += 1
            got = [(int(a), int(l)) for a, l in (g[1]["v"][0]["v"] if g[1]["v"] and g[1]["v"][0]["t"] == "aset" else [])]
            want = aexp.get(did)
            lo = [int(v["v"]) for v in g[2]["v"]]; hi = [int(v["v"]) for v in g[3]["v"]]
            if got != want or lo != [want[0][0]] or hi != [want[-1][0] + want[-1][1]]:
                vd.observe("addresses of a DIE (case %d)" % (did - 7000), {"expected": want, "observed": got, "low": lo, "high": hi, "case": str(acases[did - 7000])})
            else:
                nontriv += 1
    vd.cov["distinct_nontrivial"] = nontriv
    vd.cov["traces_validated_against_impl"] = nontriv
    # location attributes: one element per address range with the stored operations and operands -- the
    # machinery of C17 (tla/Loc.tla: menu pairs and the complete operand table, every form and version)
    import c17
    c17.locations(vd, drv, wd, rng, tier)
    vd.sample({"descriptor": use[0]["d"], "documented": use[0]["documented"]})
    return vd.finish(rule="tla/AtVal.tla: decision table of DW_AT_const_value over form x holder (variable / template value "
                     "parameter / enumerator) x type chain shape (none, base, typedef, cv+typedef, enum with / without underlying "
                     "type, via typedef, pointer, ptr-to-member, struct) x encoding x enumerator forms x value class (0, 1, top bit, "
                     "all ones): TLC checks that the transcribed code never contradicts the documented rule (%d descriptors); one DIE "
                     "group per descriptor is generated and `@AT_const_value` / `attribute value` compared on value, sign and domain; "
                     "plus %d attributes of the other classes (strings incl. high bytes and .debug_str, flags, addresses, "
                     "enumerated attributes, references in three forms, sec_offset); every enumerated attribute of AtVal!EnumAttrs "
                     "with every enumerator of its family from <dwarf.h> in three constant forms (%d DIEs); location attributes through "
                     "the expressions of tla/Loc.tla (shared with C17): elements, operations and operands of every operation of the table" % (len(descs), len(specs), len(eexp)),
                     exhaustive=(tier == "thorough"))

def replay(path):
    print(open(path).read())
    return 0
