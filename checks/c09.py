"""C09: comparison is one consistent total order; equality respects constant domains."""
import os, sys, json, random, re, itertools
import common, tlc, zw

PID = "C09"
INV = ["Trichotomy", "Reflexive", "EqTransitive", "LtTransitive", "EqCongruent", "ArithByValue",
       "UnrelatedNeverEqual", "FamilyEqual", "ShorterFirst", "ElementWise"]

# (expression, class for the documented specifics)
POOL = [
    ("1", ("arith", 1)), ("0x1", ("arith", 1)), ("01", ("arith", 1)), ("0b1", ("arith", 1)), ("3", ("arith", 3)), ("0x3", ("arith", 3)),
    ("-1", ("arith", -1)), ("0", ("arith", 0)), ("0xffffffffffffffff", ("arith", 2**64 - 1)), ("[7, 8] elem pos (== 1)", ("arith", 1)),
    ("\"abc\" length", ("arith", 3)), ("0 1 aset low", ("arith", 0)),
    # the same numbers in the other internal representation (a difference is signed), and the middle of the range
    ("5 5 sub", ("arith", 0)), ("-3 4 add", ("arith", 1)), ("0x8000000000000000", ("arith", 2**63)), ("-9223372036854775808", ("arith", -2**63)),
    ("true", ("named", "bool", 1)), ("false", ("named", "bool", 0)), ("T_CONST", ("named", "T", 2)), ("T_STR", ("named", "T", 4)),
    ("DW_TAG_array_type", ("named", "TAG", 1)), ("DW_AT_sibling", ("named", "AT", 1)), ("DW_FORM_addr", ("named", "FORM", 1)),
    ("DW_AT_name", ("named", "AT", 3)), ("DW_TAG_subprogram", ("named", "TAG", 46)), ("DW_LANG_C89", ("named", "LANG", 1)),
    ("STT_FUNC", ("named", "STT", 2)), ("STT_ARM_TFUNC", ("named", "STT_ARM", 13)), ("STT_SPARC_REGISTER", ("named", "STT_SPARC", 13)),
    ("STT_ARM_16BIT", ("named", "STT_ARM", 15)), ("STB_GLOBAL", ("named", "STB", 1)), ("STB_MIPS_SPLIT_COMMON", ("named", "STB_MIPS", 13)),
    ("\"\"", ("str", b"")), ("\"a\"", ("str", b"a")), ("\"ab\"", ("str", b"ab")), ("\"b\"", ("str", b"b")), ("\"a\\x00\"", ("str", b"a\0")),
    ("\"\\x80\"", ("str", b"\x80")), ("\"\\xff\"", ("str", b"\xff")), ("\"B\"", ("str", b"B")),
    ("[]", ("seq", 0)), ("[1]", ("seq", 1)), ("[0x1]", ("seq", 1)), ("[2]", ("seq", 1)), ("[1, 2]", ("seq", 2)), ("[\"a\"]", ("seq", 1)),
    ("[[1]]", ("seq", 1)), ("[1, \"a\"]", ("seq", 2)), ("[\"a\", 1]", ("seq", 2)), ("[T_CONST]", ("seq", 1)), ("[[], 1]", ("seq", 2)),
    ("0 1 aset", ("aset",)), ("0 2 aset", ("aset",)), ("1 2 aset", ("aset",)), ("0 0 aset", ("aset",)), ("0 1 aset 1 2 aset add", ("aset",)),
    # properly nested and overlapping ranges with different starts
    ("10 30 aset", ("aset",)), ("20 25 aset", ("aset",)), ("21 28 aset", ("aset",)), ("10 12 aset 20 25 aset add", ("aset",)),
]
WORDS = ["?lt", "?gt", "?eq", "?ne", "?le", "?ge", "!lt", "!gt", "!eq", "!ne", "!le", "!ge"]
INFIX = {"==": "?eq", "!=": "?ne", "<": "?lt", ">": "?gt", "<=": "?le", ">=": "?ge"}
HOLDS = {"?lt": lambda c: c == -1, "?gt": lambda c: c == 1, "?eq": lambda c: c == 0, "?ne": lambda c: c != 0,
         "?le": lambda c: c <= 0, "?ge": lambda c: c >= 0}
for _w in list(HOLDS):
    HOLDS["!" + _w[1:]] = (lambda f: (lambda c: not f(c)))(HOLDS[_w])


def kindof(c):
    return {"arith": "constant", "named": "constant"}.get(c[0], c[0])


DW_POOL = ("[Dw entry (pos < 14), Dw raw entry (pos < 10), Dw entry (pos < 6) raw, Dw entry (pos < 6) parent, Dw unit, Dw raw unit, "
           "Dw entry (pos < 3) attribute, Dw raw entry (pos < 3) attribute, Dw]")
DW_REL = "(|Dw| %s (|L| [L elem (|A| [L elem (|B| (A B ?lt 1 || A B ?eq 2 || A B ?gt 3 || 0))])]))" % DW_POOL
DW_TYPES = "(|Dw| [%s elem type])" % DW_POOL


def dwarf_values(vd, drv, wd):
    """DWARF values taken from inputs (DIEs via different routes -- cooked with and without an import path, raw,
    as somebody's parent --, units, attributes, the Dwarf itself): the recorded relation of all pairs of the pool,
    computed within one query (one Dwarf value), against the order laws of tla/CmpTrace.tla."""
    tests = os.path.join(common.REPO, "tests")
    for f in ("dwz-partial", "a1.out", "twocus", "dwz-partial2-1", "nullptr.o"):
        fp = os.path.join(tests, f)
        res = zw.run_driver(drv, ["\t".join(["run", "0", "max=5,t=120", zw.hexq(DW_REL), fp]),
                                  "\t".join(["run", "1", "max=5,t=120", zw.hexq(DW_TYPES), fp])], wd, tag="dwcmp")
        r = next((x for x in res if x.get("id") == "0"), None)
        vd.cov["evaluations"] += 1
        if not r or r.get("status") != "ok" or len(r["results"]) != 1 or r.get("soft", 0):
            vd.observe("comparison of DWARF values of %s fails" % f, {"observed": {k: (r or {}).get(k) for k in ("status", "err", "soft", "soft1")}})
            continue
        rows = r["results"][0][-1]["v"]
        n = len(rows)
        code = {1: -1, 2: 0, 3: 1, 0: 2}
        mf = os.path.join(wd, "dwmatrix-%s.ndjson" % f)
        with open(mf, "w") as fh:
            for i, row in enumerate(rows):
                for j, c in enumerate(row["v"]):
                    fh.write(json.dumps({"a": i + 1, "b": j + 1, "r": code[int(c["v"])]}) + "\n")
        t = tlc.run_tlc("CmpTrace", workers=1, timeout=1500, env={"CMPMATRIX": mf}, heap="8g")
        m = re.search(r'"CMPALL",\s*\[(.*?)\]', t.out.replace("\n", " "))
        if not m:
            raise common.ToolError("CmpTrace failed on the DWARF relation of %s\n%s" % (f, t.out[-2000:]))
        broken = sorted(re.findall(r"(\w+) \|-> FALSE", m.group(1)))
        vd.cov["traces_validated_against_impl"] += n * n
        for law in broken:
            if law in ("TransEq", "Congruent"):
                vd.observe("order law %s broken among DIEs reached through different import routes" % law, {"file": f, "pool": DW_POOL})
            else:
                vd.observe("order law %s broken among DWARF values of %s" % (law, f), {"file": f, "pool": DW_POOL, "output": t.out[-1500:]})


def attribute_values(vd, drv, wd):
    """Attributes as values: all attributes of a generated file whose forms store nothing in the DIE (flag_present:
    the data pointer is that of the next attribute; implicit_const: the data lives in the abbreviation, shared by
    every DIE that uses it) or an empty block, and of tests/enum.o.  Different attributes are never equal, and
    the relation of all pairs obeys the order laws (tla/CmpTrace.tla)."""
    sys.path.insert(0, os.path.join(common.VERIF, "gen"))
    import dwarfgen
    def die(i, tag, attrs, kids=()):
        return {"id": i, "tag": tag, "children": list(kids), "attrs": attrs}
    A = lambda n, f, v=None: {"name": n, "form": f, "value": v}
    same = [A(0x3f, "flag_present"), A(0x0b, "data1", 4), A(0x3a, "implicit_const", 1), A(0x39, "implicit_const", 7), A(3, "string", "v")]
    kids = [die(10, 0x34, [dict(a) for a in same]), die(11, 0x34, [dict(a) for a in same]),
            die(12, 0x2e, [A(0x3f, "flag_present"), A(0x27, "flag_present"), A(0x34, "flag_present"), A(3, "string", "f")]),
            die(13, 0x34, [A(0x1c, "block1", []), A(2, "exprloc", []), A(3, "string", ""), A(0x3f, "flag_present")]),
            die(14, 0x34, [A(0x3c, "flag_present")])]
    o, offs, _ = dwarfgen.build({"units": [{"kind": "cu", "version": 5, "table": 0, "root": die(1, 0x11, [A(3, "string", "a.c")], kids)}]}, wd, "attrcmp")
    q = "(|Dw| [Dw entry attribute] (|L| [L elem (|A| [L elem (|B| (A B ?lt 1 || A B ?eq 2 || A B ?gt 3 || 0))])]))"
    for f in (o, os.path.join(common.REPO, "tests", "enum.o")):
        res = zw.run_driver(drv, ["\t".join(["run", "0", "max=5,t=120", zw.hexq(q), f])], wd, tag="attrcmp")
        r = res[0] if res else None
        vd.cov["evaluations"] += 1
        name = os.path.basename(f)
        if not r or r.get("status") != "ok" or len(r["results"]) != 1 or r.get("soft", 0):
            vd.observe("comparison of the attributes of %s fails" % name, {"observed": {k: (r or {}).get(k) for k in ("status", "err", "soft")}})
            continue
        rows = r["results"][0][-1]["v"]
        code = {1: -1, 2: 0, 3: 1, 0: 2}
        mf = os.path.join(wd, "attrmatrix-%s.ndjson" % name)
        eqpairs = []
        with open(mf, "w") as fh:
            for i, row in enumerate(rows):
                for j, c in enumerate(row["v"]):
                    fh.write(json.dumps({"a": i + 1, "b": j + 1, "r": code[int(c["v"])]}) + "\n")
                    if i != j and int(c["v"]) == 2:
                        eqpairs.append((i, j))
        if eqpairs:
            vd.observe("different attributes of %s compare equal" % name, {"pairs (positions in `entry attribute')": eqpairs[:10]})
        t = tlc.run_tlc("CmpTrace", workers=1, timeout=1500, env={"CMPMATRIX": mf}, heap="8g")
        m = re.search(r'"CMPALL",\s*\[(.*?)\]', t.out.replace("\n", " "))
        if not m:
            raise common.ToolError("CmpTrace failed on the attribute relation of %s\n%s" % (name, t.out[-2000:]))
        vd.cov["traces_validated_against_impl"] += len(rows) ** 2
        for law in sorted(re.findall(r"(\w+) \|-> FALSE", m.group(1))):
            vd.observe("order law %s broken among the attributes of %s" % (law, name), {"output": t.out[-1500:]})


def run(tier):
    vd = common.Verdict(PID, tier)
    wd = common.scratch(PID)
    bdir = common.build("plain")
    drv = os.path.join(bdir, "bin", "zwdrv")
    # 1. the design: the order laws hold for every order of the domain objects' addresses
    r = tlc.run_tlc("Cmp", constants={"PinnedConst": False, "PinnedCross": False}, init="Init", nxt="Next",
                    invariants=INV, workers=16, timeout=1500)
    if r.violated:
        vd.observe("model:" + r.violated, {"output": r.out[-3000:]})
    elif not r.ok:
        raise common.ToolError("TLC Cmp failed\n" + r.out[-2000:])
    vd.add_states(r)
    # 2. the recorded relation of the implementation
    n = len(POOL)
    cmds, meta = [], []
    for i, (a, _) in enumerate(POOL):
        for j, (b, _) in enumerate(POOL):
            for w in WORDS:
                cmds.append("\t".join(["run", str(len(cmds)), "max=5", zw.hexq("(%s) (%s) %s" % (a, b, w))])); meta.append((i, j, w))
            for op in INFIX:
                cmds.append("\t".join(["run", str(len(cmds)), "max=5", zw.hexq("((%s) %s (%s))" % (a, op, b))])); meta.append((i, j, op))
    res = zw.run_driver(drv, cmds, wd, tag="cmp")
    byid = {r.get("id"): r for r in res}
    ans = {}
    for k, (i, j, w) in enumerate(meta):
        r = byid.get(str(k))
        vd.cov["evaluations"] += 1
        if not r or r.get("status") != "ok" or r.get("soft", 0):
            vd.observe("comparison fails: (%s) (%s) %s" % (POOL[i][0], POOL[j][0], w), {"observed": r})
            ans[(i, j, w)] = None
        else:
            ans[(i, j, w)] = len(r["results"]) == 1
    rel = {}
    for i in range(n):
        for j in range(n):
            lt, eq, gt = ans[(i, j, "?lt")], ans[(i, j, "?eq")], ans[(i, j, "?gt")]
            c = 2
            if [lt, eq, gt].count(True) == 1:
                c = -1 if lt else (0 if eq else 1)
            rel[(i, j)] = c
            a, b = POOL[i][0], POOL[j][0]
            if c == 2:
                vd.observe("not exactly one of < == > holds: (%s) vs (%s)" % (a, b), {"lt": lt, "eq": eq, "gt": gt})
                continue
            for w in WORDS:
                if ans[(i, j, w)] is not None and ans[(i, j, w)] != HOLDS[w](c):
                    vd.observe("alias %s disagrees: (%s) (%s)" % (w, a, b), {"three_way": c, "word": ans[(i, j, w)]})
            for op, w in INFIX.items():
                if ans[(i, j, op)] is not None and ans[(i, j, op)] != HOLDS[w](c):
                    vd.observe("infix %s disagrees with %s: (%s) (%s)" % (op, w, a, b), {"three_way": c})
    mf = os.path.join(wd, "matrix.ndjson")
    with open(mf, "w") as f:
        for i in range(n):
            for j in range(n):
                f.write(json.dumps({"a": i + 1, "b": j + 1, "r": rel[(i, j)]}) + "\n")
    t = tlc.run_tlc("CmpTrace", workers=1, timeout=1500, env={"CMPMATRIX": mf}, heap="8g")
    m = re.search(r'"CMPLAWS",\s*"(\w+)",\s*<<(\d+), (\d+), (\d+)>>', t.out.replace("\n", " "))
    if not m:
        raise common.ToolError("CmpTrace failed\n" + t.out[-2000:])
    if m.group(1) != "none":
        tri = [int(m.group(k)) for k in (2, 3, 4)]
        names = [POOL[x - 1][0] for x in tri if x > 0]
        kinds = sorted(set(kindof(POOL[x - 1][1]) for x in tri if x > 0))
        vd.observe("order law %s broken among %s: %s" % (m.group(1), "+".join(kinds), " ; ".join(names)),
                   {"law": m.group(1), "values": names})
    else:
        vd.cov["traces_validated_against_impl"] = n * n
    # documented specifics
    for i, j in itertools.product(range(n), repeat=2):
        (a, ca), (b, cb) = POOL[i], POOL[j]
        c = rel[(i, j)]
        if c == 2:
            continue
        if ca[0] == "arith" and cb[0] == "arith":
            want = (ca[1] > cb[1]) - (ca[1] < cb[1])
            if c != want:
                vd.observe("arithmetic domains do not compare by value: (%s) vs (%s)" % (a, b), {"got": c, "want": want})
        if ca[0] == "named" and cb[0] == "named" and ca[1] != cb[1] and c == 0 \
                and not (ca[1].startswith(cb[1]) or cb[1].startswith(ca[1])):
            vd.observe("constants of unrelated domains compare equal: (%s) vs (%s)" % (a, b), {})
        if ca[0] == "str" and cb[0] == "str":
            want = (ca[1] > cb[1]) - (ca[1] < cb[1])
            if c != want:
                vd.observe("strings do not compare bytewise: (%s) vs (%s)" % (a, b), {"got": c, "want": want})
        if ca[0] == "seq" and cb[0] == "seq" and ca[1] < cb[1] and c != -1:
            vd.observe("a shorter sequence does not sort first: (%s) vs (%s)" % (a, b), {"got": c})
        if i == j and c != 0:
            vd.observe("a value does not equal its copy: (%s)" % a, {})
    # element-wise: singleton sequences compare like their elements
    ecmds, emeta = [], []
    for i, (a, ca) in enumerate(POOL):
        for j, (b, cb) in enumerate(POOL):
            ecmds.append("\t".join(["run", str(len(ecmds)), "max=5", zw.hexq("[%s] [%s] ?lt" % (a, b))])); emeta.append((i, j))
    eres = zw.run_driver(drv, ecmds, wd, tag="elem")
    ebyid = {r.get("id"): r for r in eres}
    for k, (i, j) in enumerate(emeta):
        r = ebyid.get(str(k))
        vd.cov["evaluations"] += 1
        if r and r.get("status") == "ok" and rel[(i, j)] != 2:
            lt = len(r["results"]) == 1
            if lt != (rel[(i, j)] == -1):
                if kindof(POOL[i][1]) != kindof(POOL[j][1]):
                    key = "sequences are not ordered element-wise across element types"
                else:
                    key = "sequences are not ordered element-wise: [%s] vs [%s]" % (POOL[i][0], POOL[j][0])
                vd.observe(key, {"a": POOL[i][0], "b": POOL[j][0], "elements": rel[(i, j)], "singletons_lt": lt})
    vd.cov["distinct_nontrivial"] = n * (n - 1)
    dwarf_values(vd, drv, wd)
    attribute_values(vd, drv, wd)
    vd.sample({"pool": [p[0] for p in POOL[:12]]})
    return vd.finish(rule="tla/Cmp.tla: the order laws and the documented specifics for a pool of constants (arithmetic, boolean, "
                     "slot type, ELF families with generic sub-domain), strings and nested sequences, for EVERY order of the "
                     "domain objects' addresses (5040 permutations); implementation: all ordered pairs of a %d-value pool "
                     "through the 12 comparison words and 6 infix operators; the recorded three-way relation is checked against "
                     "the laws by TLC (CmpTrace.tla: totality, antisymmetry, reflexivity, transitivity of < and ==, congruence) "
                     "and against the documented specifics; DWARF values (DIEs through different routes: cooked with and without "
                     "import path, raw, as a parent; units; attributes; the Dwarf) of five sample files, all pairs within one Dwarf "
                     "value, against the same laws; non-trivial = ordered pairs of distinct values" % n)


def replay(path):
    print(open(path).read())
    return 0
