"""C12: a compiled query is a pure function of its input stack."""
import os, sys, json, random
import common, tlc, zw

PID = "C12"

# programs covering every stateful construct (each op class that owns run-time state)
PROGRAMS = [
    "(1 add, 2 add)", "(1 add, 2 add, 3 add)", "(1 add || 2 add)", "(?(3 ?lt) (1 add,) || 9 add)",
    "[(, 1 add)] elem", "[(, 1 add)] relem", "(1 add ?(3 ?lt))*", "(1 add ?(4 ?lt))+", "(1 add)?",
    "let X := (, 1 add); X", "let X Y := (1 2, 3 4); X Y add add", "(|A| A A add)", "[|A| A, A 1 add] length add",
    "if ?(3 ?lt) then (, 1 add) else (0 add)", '"<%( (, 1 add) %)>"', '"%s-%( 7 %)"', "(dup == 1 add 1 sub) 5 add",
    "(dup < 3) (, 2 add)", "?(1 add ?(3 ?lt))", "!(1 add ?(3 ?lt)) 7", "dup (1 add, 2 add) add", "[dup, dup 1 add] elem (, 1 add)",
    "{1 add} apply", "let F := {dup add}; F F", "{|A| {A 1 add}} apply apply", "((1 add, 2 add) ?(6 ?lt))*",
    "(1 add, 2 add) (?(4 ?lt) || drop 0)", '[1, 2] [3] add elem', '"ab" "c" add elem', "1 add 2 mul 3 sub 2 div 5 mod",
    "(, 1 add) (, 1 add) (, 1 add)", "[] [1] add", "[] (|L| L [7] add L [8] add)", "[[], [1]] elem [2] add",
    "dup [] swap (|X| [X] add)", '"" "x" add', "(1 add ?(6 ?lt))* (2 mod == 0)", "if (dup == 2) then [elem?] else ([], [3])",
    "(|A| [A, A] (|L| L L add L))", "0 aset? dup",
]
INPUTS = ["1", "2", "5"]

DW_PROGRAMS = ["entry ?root", "entry (offset < 0x60) parent", "entry ?root child name", "unit root",
               "entry (pos < 4) attribute label", "entry ?root child* (pos < 6) offset", "abbrev entry code",
               "entry (pos < 3) @AT_name", "symbol (pos < 4) name", "entry (pos < 5) [attribute] length"]


def sched_str(h, ninputs):
    return ",".join(("%s%d:%d" % (op, s - 1, (i - 1) % ninputs)) if op == "e" else "%s%d" % (op, s - 1)
                    for op, s, i in h)


def run(tier):
    vd = common.Verdict(PID, tier)
    wd = common.scratch(PID)
    bdir = common.build("plain")
    rng = random.Random(common.seed())
    # 1. the design: private state per result set, shared immutable op graph
    for body in range(1, 8):
        r = tlc.run_tlc("Api", constants={"PinnedMerge": False, "NSlots": 2 if tier == "quick" else 3,
                                          "MaxHist": 6 if tier == "quick" else 7, "ABody": body},
                        spec="ASpec", invariants=["SlotsIndependent", "NoLifecycleViolation"],
                        view="AView", workers=8, timeout=1500)
        if r.violated:
            vd.observe("model:body%d:%s" % (body, r.violated), {"output": r.out[-4000:]})
        elif not r.ok:
            raise common.ToolError("TLC Api failed\n" + r.out[-2000:])
        vd.add_states(r)
    # 2. schedules from TLC, replayed on the real API for every program
    sf = os.path.join(wd, "sched.ndjson")
    g = tlc.run_tlc("ApiGen", constants={"NSlots": 2 if tier == "quick" else 3, "NInputs": 2,
                                         "MaxLen": 5 if tier == "quick" else 6, "OutFile": sf},
                    workers=1, timeout=1500)
    if not os.path.exists(sf):
        raise common.ToolError("ApiGen failed\n" + g.out[-2000:])
    scheds = [json.loads(l) for l in open(sf) if l.strip()]
    # random longer schedules
    for _ in range(100 if tier == "quick" else 2000):
        h, live = [], set()
        for _ in range(rng.randrange(8, 30)):
            k = rng.random()
            if k < 0.25 or not live:
                s = rng.randrange(1, 4); live.add(s); h.append(["e", s, rng.randrange(1, 4)])
            elif k < 0.9:
                h.append(["p", rng.choice(sorted(live)), 0])
            else:
                s = rng.choice(sorted(live)); live.discard(s); h.append(["d", s, 0])
        scheds.append(h)
    drv = os.path.join(bdir, "bin", "zwdrv")
    tests = os.path.join(common.REPO, "tests")
    dwinputs = ['"%s/twocus" dwopen' % tests, '"%s/dwz-partial" dwopen' % tests, '"%s/a1.out" dwopen' % tests]
    jobs = [(p, INPUTS) for p in PROGRAMS] + [(p, dwinputs) for p in DW_PROGRAMS]
    # fresh runs
    fcmds, fkey = [], []
    for p, inputs in jobs:
        for i, iq in enumerate(inputs):
            fcmds.append("\t".join(["run", str(len(fcmds)), "max=500", zw.hexq("(%s) %s" % (iq, p))]))
            fkey.append((p, i))
    fres = zw.run_driver(drv, fcmds, wd, tag="fresh")
    fresh = {}
    for (p, i), r in zip(fkey, sorted([x for x in fres if "id" in x], key=lambda x: int(x["id"]))):
        fresh[(p, i)] = r
    per_prog = 150 if tier == "quick" else 1500
    cmds, meta = [], []
    for p, inputs in jobs:
        sel = scheds if len(scheds) <= per_prog else rng.sample(scheds, per_prog)
        for h in sel:
            cmds.append("\t".join(["hist", str(len(cmds)), "t=30", zw.hexq(p), sched_str(h, len(inputs))]
                                  + [zw.hexq(iq) for iq in inputs]))
            meta.append((p, inputs, h))
    res = zw.run_driver(drv, cmds, wd, tag="hist")
    byid = {r.get("id"): r for r in res}
    nontriv = set()
    for idx, (p, inputs, h) in enumerate(meta):
        r = byid.get(str(idx))
        vd.cov["evaluations"] += 1
        key = "program `%s' schedule %s" % (p, sched_str(h, len(inputs)))
        if r is None or r.get("status") != "ok":
            # a program that cannot be compiled or whose input fails is a tooling problem
            if r is not None and r.get("status") in ("parse_error", "input_error"):
                raise common.ToolError("bad program in C12 pool: %s: %s" % (p, r))
            vd.observe(key, {"why": "crash/timeout", "observed": r})
            continue
        if not r.get("inputs_intact", True):
            vd.observe(key, {"why": "input stack modified", "observed": r})
            continue
        slot_inp, slot_out, bad = {}, {}, None
        for st in r["steps"]:
            op = st["op"]
            s = int(op[1])
            if op[0] in "eE":
                slot_inp[s] = int(op[3:]); slot_out[s] = []
            elif op[0] == "d":
                slot_inp.pop(s, None)
            elif op[0] == "p" and not st.get("skip"):
                f = fresh[(p, slot_inp[s])]
                exp = f.get("results", [])
                k = len(slot_out[s])
                if "err" in st:
                    if not (f.get("status") == "runtime_error" and k == len(exp)):
                        bad = "unexpected error at pull %d of slot %d: %s" % (k, s, st["err"])
                    slot_inp.pop(s, None)
                elif st["out"] is None:
                    if k != len(exp) and f.get("status") == "ok":
                        bad = "slot %d ended after %d of %d results" % (s, k, len(exp))
                else:
                    if k >= len(exp) or json.dumps(st["out"], sort_keys=True) != json.dumps(exp[k], sort_keys=True):
                        bad = "slot %d pull %d differs from the fresh run" % (s, k)
                    slot_out[s].append(st["out"])
            if bad:
                break
        if bad:
            vd.observe(key, {"why": bad, "observed": r, "fresh": {i: fresh[(p, i)] for i in range(len(inputs))}})
        elif sum(1 for st in r["steps"] if st.get("out")) >= 2:
            nontriv.add(key)
    vd.cov["distinct_nontrivial"] = len(nontriv)
    vd.cov["traces_validated_against_impl"] = len(meta)
    vd.sample({"program": meta[3][0], "schedule": sched_str(meta[3][2], 3)})
    return vd.finish(rule="histories over result slots: all canonical schedules up to the length bound from tla/ApiGen.tla "
                     "plus random longer ones, for %d core programs (every stateful op class) and %d DWARF programs with "
                     "shared Dwarf values; each slot's pulled sequence must be a prefix of a fresh parse-and-run on that "
                     "input and end where it ends; inputs must be unchanged; the design (private buffer per result, "
                     "shared op graph) is model-checked in tla/Api.tla; non-trivial = schedules with >= 2 yielded stacks"
                     % (len(PROGRAMS), len(DW_PROGRAMS)), extra={"schedules": len(scheds)})

def replay(path):
    print(open(path).read())
    return 0
