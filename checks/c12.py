"""C12: a compiled query is a pure function of its input stack."""
import os, sys, json, random
import common, tlc, zw

PID = "C12"

# programs covering every stateful construct (each op class that owns run-time state)
PROGRAMS = [
    "(1 add, 2 add)", "(1 add, 2 add, 3 add)", "(1 add || 2 add)", "(?(3 ?lt) (1 add,) || 9 add)",
    "[(, 1 add)] elem", "[(, 1 add)] relem", "(1 add ?(3 ?lt))*", "(1 add ?(4 ?lt))+", "(1 add)?",
    "let X := (, 1 add); X", "let X Y := (1 2, 3 4); X Y add add", "(|A| A A add)", "[|A| A, A 1 add] length add",
    "if ?(3 ?lt) then (, 1 add) else (0 add)", '"<%( (, 1 add) %)>"', '"%s-%( 7 %)"', "(dup == 1 add 1 sub) 5 add",
    "(dup < 3) (, 2 add)", "?(1 add ?(3 ?lt))", "!(1 add ?(3 ?lt)) 7", "dup (1 add, 2 add) add", "[dup, dup 1 add] elem (, 1 add)",
    "{1 add} apply", "let F := {dup add}; F F", "{|A| {A 1 add}} apply apply", "((1 add, 2 add) ?(6 ?lt))*",
    "(1 add, 2 add) (?(4 ?lt) || drop 0)", '[1, 2] [3] add elem', '"ab" "c" add elem', "1 add 2 mul 3 sub 2 div 5 mod",
    "(, 1 add) (, 1 add) (, 1 add)", "[] [1] add", "[] (|L| L [7] add L [8] add)", "[[], [1]] elem [2] add",
    "dup [] swap (|X| [X] add)", '"" "x" add', "(1 add ?(6 ?lt))* (2 mod == 0)", "if (dup == 2) then [elem?] else ([], [3])",
    "(|A| [A, A] (|L| L L add L))", "0 aset? dup",
]
INPUTS = ["1", "2", "5"]

DW_PROGRAMS = ["entry ?root", "entry (offset < 0x60) parent", "entry ?root child name", "unit root",
               "entry (pos < 4) attribute label", "entry ?root child* (pos < 6) offset", "abbrev entry code",
               "entry (pos < 3) @AT_name", "symbol (pos < 4) name", "entry (pos < 5) [attribute] length"]


# programs on input stacks that hold a DIE -- one that was reached through an import (its value shares the import
# chain with every copy of it), a raw one, a unit root: navigation and comparison words, several uses of the DIE
DIE_PROGRAMS = ["root offset", "[parent* offset]", "(|A| [A parent* offset], A root offset, [A parent* offset])", "(|A| A root, A parent, A)",
                "dup root ?ne drop [parent offset]", "(|A| A A root (?eq 1 || 0), A A ?eq 2)", "[child offset] length", "unit offset",
                "(|A| [A parent+] length, A root ?root offset)", "?(root) parent offset", "[root child (pos < 3) parent offset]"]


def sched_str(h, ninputs):
    return ",".join(("%s%d:%d" % (op, s - 1, (i - 1) % ninputs)) if op == "e" else "%s%d" % (op, s - 1)
                    for op, s, i in h)


CACHE_PROG = ("(|Dw N Op| Dw entry (pos == N) (|D| if (Op == 0) then (?(D ?root) 1 || 0) "
              "else (D parent offset || 99999)))")
SHAPE = [0, 1, 2, 1]       # Shapes[1] of tla/Cache.tla: DIE 1 root; 2, 4 its children; 3 child of 2
NUNITS = 3


def cache_histories(vd, drv, wd, tier, rng):
    """tla/Cache.tla: the caches hanging off a Dwarf value answer every history of questions as a
    fresh process would.  Model-checked; the histories of tla/CacheGen.tla are replayed on one shared
    Dwarf value through one compiled query."""
    sys.path.insert(0, os.path.join(common.VERIF, "gen"))
    import dwarfgen
    for shape in (1, 2, 3):
        r = tlc.run_tlc("Cache", constants={"NUnits": NUNITS, "ShapeId": shape, "MaxOps": 3 if tier == "quick" else 4,
                                            "PinnedRootFrom": False, "PinnedParSub": False},
                        spec="Spec", invariants=["HistoryIndependent"], props=["AppendOnly"], workers=4, timeout=900)
        if r.violated:
            vd.observe("model:cache:shape%d:%s" % (shape, r.violated), {"output": r.out[-4000:]})
        elif not r.ok:
            raise common.ToolError("TLC Cache failed\n" + r.out[-2000:])
        vd.add_states(r)
    # non-vacuity: the incomplete fills are caught by the same invariant
    for pin in ("PinnedRootFrom", "PinnedParSub"):
        c = {"NUnits": NUNITS, "ShapeId": 1, "MaxOps": 3, "PinnedRootFrom": False, "PinnedParSub": False}
        c[pin] = True
        r = tlc.run_tlc("Cache", constants=c, spec="Spec", invariants=["HistoryIndependent"], workers=2, timeout=300)
        if r.violated != "HistoryIndependent":
            raise common.ToolError("Cache.tla: mutant %s not caught\n%s" % (pin, r.out[-1500:]))
    # the bound on the length of the histories removed: Apalache discharges an inductive invariant ("a cache is
    # empty or complete, never partial") for the same transition system with 1..4 units
    import shutil, subprocess
    ad = os.path.join(wd, "apalache-cache")
    os.makedirs(ad, exist_ok=True)
    shutil.copy(os.path.join(common.VERIF, "tla", "apalache", "CacheInd.tla"), ad)
    for step in (["--init=Init", "--inv=IndInv", "--length=0"], ["--init=IndInv", "--inv=IndInv", "--length=1"],
                 ["--init=IndInv", "--inv=HistoryIndependent", "--length=0"]):
        try:
            pr = subprocess.run(["apalache-mc", "check", "--cinit=CInit"] + step + ["CacheInd.tla"], cwd=ad, stdout=subprocess.PIPE,
                                stderr=subprocess.STDOUT, timeout=600)
            out = pr.stdout.decode("utf-8", "replace")
        except subprocess.TimeoutExpired:
            raise common.ToolError("apalache timed out on CacheInd.tla " + " ".join(step))
        if "The outcome is: NoError" in out:
            vd.cov["states"] += 1
        elif "The outcome is: Error" in out:
            vd.observe("model:cache:inductive step " + " ".join(step), {"output": out[-3000:]})
        else:
            raise common.ToolError("apalache failed on CacheInd.tla\n" + out[-2000:])
    shutil.rmtree(ad, ignore_errors=True)
    nd = len(SHAPE)
    def did(u, d): return (u - 1) * nd + d
    def die(u, d):
        kids = [c + 1 for c in range(nd) if SHAPE[c] == d]
        return {"id": did(u, d), "tag": 0x11 if d == 1 else (0x39 if kids else 0x34), "has_children": bool(kids),
                "children": [die(u, k) for k in kids], "attrs": [{"name": 0x03, "form": "string", "value": "d%d" % did(u, d)}]}
    forest = {"units": [{"kind": "cu", "version": 4, "table": 0, "root": die(u, 1)} for u in range(1, NUNITS + 1)]}
    obj, offs, _ = dwarfgen.build(forest, wd, "cachedw")
    off = {int(k[4:]): v for k, v in offs.items() if k.startswith("die_")}
    hf = os.path.join(wd, "cachehist.ndjson")
    g = tlc.run_tlc("CacheGen", constants={"NUnits": NUNITS, "ShapeId": 1, "MaxLen": 2 if tier == "quick" else 3,
                                           "OutFile": hf, "Shard": 0, "NShards": 1}, workers=1, timeout=900, heap="6g")
    if not os.path.exists(hf):
        raise common.ToolError("CacheGen failed\n" + g.out[-2000:])
    hists = [json.loads(l) for l in open(hf) if l.strip()]
    qs = [(o, u, d) for o in ("root", "parent") for u in range(1, NUNITS + 1) for d in range(1, nd + 1)]
    for _ in range(300 if tier == "quick" else 5000):
        hists.append([{"op": o, "u": u, "d": d, "a": (1 if d == 1 else 0) if o == "root" else SHAPE[d - 1]}
                      for (o, u, d) in [rng.choice(qs) for _ in range(rng.randrange(3, 9))]])
    pairs = [(did(u, d) - 1, 0 if o == "root" else 1) for (o, u, d) in qs]
    idx = {q: i for i, q in enumerate(qs)}
    shared = '*"%s" dwopen (%s)' % (obj, ", ".join("%d %d" % pr for pr in pairs))
    def expect(q):
        if q["op"] == "root":
            return q["a"]
        return 99999 if q["a"] == 0 else off[did(q["u"], q["a"])]
    cmds = []
    # the harness itself: every question alone, in a fresh process state, must get the model's answer
    for i, (o, u, d) in enumerate(qs):
        cmds.append("\t".join(["run", "f%d" % i, "max=10", zw.hexq('"%s" dwopen %d %d %s' % ((obj,) + pairs[i] + (CACHE_PROG,)))]))
    for j, h in enumerate(hists):
        sched = ",".join("e0:%d,p0,p0,d0" % idx[(q["op"], q["u"], q["d"])] for q in h)
        cmds.append("\t".join(["hist", "h%d" % j, "t=30", zw.hexq(CACHE_PROG), sched, zw.hexq(shared)]))
    res = zw.run_driver(drv, cmds, wd, tag="cache")
    byid = {r.get("id"): r for r in res}
    for i, (o, u, d) in enumerate(qs):
        r = byid.get("f%d" % i)
        q = {"op": o, "u": u, "d": d, "a": (1 if d == 1 else 0) if o == "root" else SHAPE[d - 1]}
        got = [int(sk[-1]["v"]) for sk in (r or {}).get("results", [])]
        if got != [expect(q)]:
            # a single fresh question answered wrongly is not a history effect: C05's business, not C12's
            raise common.ToolError("C12 cache harness: fresh `%s' of unit %d DIE %d gives %s, model %s" % (o, u, d, got, expect(q)))
    n_ok = 0
    for j, h in enumerate(hists):
        r = byid.get("h%d" % j)
        key = "cache history " + " ".join("%s(%d.%d)" % (q["op"], q["u"], q["d"]) for q in h)
        vd.cov["evaluations"] += 1
        if r is None or r.get("status") != "ok":
            vd.observe(key, {"why": "crash/timeout", "observed": r, "file": obj})
            continue
        outs, cur = [], None
        for st in r["steps"]:
            if st["op"][0] == "e":
                cur = []; outs.append(cur)
            elif st["op"][0] == "p" and not st.get("skip") and st.get("out"):
                cur.append(int(st["out"][-1]["v"]))
        want = [[expect(q)] for q in h]
        if outs != want:
            vd.observe(key, {"why": "answers on a reused Dwarf value differ from the fresh answers",
                             "expected": want, "observed": outs, "program": CACHE_PROG, "file": obj})
        else:
            n_ok += 1
    vd.cov["traces_validated_against_impl"] += n_ok
    return len(hists)


# forms whose compilation goes through parser helpers with their own objects: N backticks before a
# capture drop N values below the new sequence
ORDER_EXTRA = ["1 2 3 `[7]", "1 2 3 ``[7]", "1 2 3 ```[7]", "1 2 3 `[|A| A]", "1 2 3 ``[|A| A]", "1 2 3 `[]", "1 2 3 ``[]",
               "1 2 3 (`[7], ``[7])", "1 2 3 (``[], `[])"]


def compile_order(vd, drv, wd):
    """A query compiled after other queries in the same process means what it means in a fresh process."""
    progs = ["(5) " + p for p in PROGRAMS] + ORDER_EXTRA
    def batch(order, tag):
        cmds = ["\t".join(["run", str(i), "max=200", zw.hexq(progs[i])]) for i in order]
        return {r.get("id"): r for r in zw.run_driver(drv, cmds, wd, tag=tag)}
    fwd = batch(list(range(len(progs))), "order-fwd")
    rev = batch(list(reversed(range(len(progs)))), "order-rev")
    alone = {}
    for i in range(len(PROGRAMS), len(progs)):
        alone.update(batch([i], "order-alone%d" % i))
    def sig(r):
        return json.dumps({k: (r or {}).get(k) for k in ("status", "results")}, sort_keys=True)
    for i, p in enumerate(progs):
        vd.cov["evaluations"] += 1
        ref = alone.get(str(i), fwd.get(str(i)))
        for name, got in (("after the programs before it", fwd.get(str(i))), ("after the programs behind it", rev.get(str(i)))):
            if sig(got) != sig(ref):
                vd.observe("compile order: `%s' compiled %s" % (p, name),
                           {"why": "differs from a fresh process", "fresh": ref, "observed": got})
    return len(progs)


CORPUS_Q = ["entry [offset, label, [attribute [label, form, [value]]]]", "entry ?root [child offset]", "entry [offset, [parent offset]]",
            "entry [offset, [@AT_const_value], [@AT_type offset], [@AT_name]]", "entry ?(@AT_location) [offset, [@AT_location [elem [label, [value]]]]]",
            "[abbrev entry [code, label, [attribute [label, form]]]]", "[symbol [name, value, size, label]]", "unit [offset, [root offset]]",
            "entry (|D| [D offset, [D ?root 1], [D ?haschildren 1], [D name]])", "raw entry [offset, [attribute label]]",
            "entry ?TAG_enumerator [offset, [value]]", "[entry ?root] length"]


def input_order(vd, drv, wd, rng, tier):
    """What a process learnt from one input must not show in what it says about another: every (file, query)
    of the corpus in one process in one order, in a second process in the opposite order, and a sample alone."""
    tests = os.path.join(common.REPO, "tests")
    files = []
    for f in sorted(os.listdir(tests)):
        fp = os.path.join(tests, f)
        try:
            if os.path.isfile(fp) and open(fp, "rb").read(4) == b"\x7fELF":
                files.append(fp)
        except OSError:
            pass
    pairs = [(f, q) for f in files for q in CORPUS_Q]
    def batch(order, tag):
        cmds = ["\t".join(["run", str(i), "max=400,t=60", zw.hexq(pairs[i][1]), pairs[i][0]]) for i in order]
        return {r.get("id"): r for r in zw.run_driver(drv, cmds, wd, tag=tag)}
    fwd = batch(list(range(len(pairs))), "corpus-fwd")
    rev = batch(list(reversed(range(len(pairs)))), "corpus-rev")
    alone_ids = rng.sample(range(len(pairs)), 40 if tier == "quick" else 400)
    alone = {}
    for i in alone_ids:
        alone.update(batch([i], "corpus-alone"))
    def sig(r):
        return json.dumps({k: (r or {}).get(k) for k in ("status", "results", "err")}, sort_keys=True)
    for i, (f, q) in enumerate(pairs):
        vd.cov["evaluations"] += 1
        a, b = fwd.get(str(i)), rev.get(str(i))
        ref = alone.get(str(i))
        if sig(a) != sig(b) or (ref is not None and sig(ref) != sig(a)):
            vd.observe("input order: `%s' on %s depends on what the process read before" % (q, os.path.basename(f)),
                       {"after_earlier_files": a, "after_later_files": b, "alone": ref})
    return len(pairs)


def run(tier):
    vd = common.Verdict(PID, tier)
    wd = common.scratch(PID)
    bdir = common.build("plain")
    rng = random.Random(common.seed())
    ncache = cache_histories(vd, os.path.join(bdir, "bin", "zwdrv"), wd, tier, rng)
    norder = compile_order(vd, os.path.join(bdir, "bin", "zwdrv"), wd)
    ncorpus = input_order(vd, os.path.join(bdir, "bin", "zwdrv"), wd, rng, tier)
    # executions that fail because of the input (a damaged DIE): the second execution on the same Dwarf value must
    # behave as the first -- a failure leaves nothing half-built behind (section shared with C14)
    import c14
    c14.damaged_inputs(vd, os.path.join(bdir, "bin", "zwdrv"), wd)
    # 1. the design: private state per result set, shared immutable op graph
    for body in range(1, 8):
        r = tlc.run_tlc("Api", constants={"PinnedMerge": False, "NSlots": 2 if tier == "quick" else 3,
                                          "MaxHist": 6 if tier == "quick" else 7, "ABody": body},
                        spec="ASpec", invariants=["SlotsIndependent", "NoLifecycleViolation"],
                        view="AView", workers=8, timeout=1500)
        if r.violated:
            vd.observe("model:body%d:%s" % (body, r.violated), {"output": r.out[-4000:]})
        elif not r.ok:
            raise common.ToolError("TLC Api failed\n" + r.out[-2000:])
        vd.add_states(r)
    # 2. schedules from TLC, replayed on the real API for every program
    sf = os.path.join(wd, "sched.ndjson")
    g = tlc.run_tlc("ApiGen", constants={"NSlots": 2 if tier == "quick" else 3, "NInputs": 2,
                                         "MaxLen": 5 if tier == "quick" else 6, "OutFile": sf},
                    workers=1, timeout=1500)
    if not os.path.exists(sf):
        raise common.ToolError("ApiGen failed\n" + g.out[-2000:])
    scheds = [json.loads(l) for l in open(sf) if l.strip()]
    # random longer schedules
    for _ in range(100 if tier == "quick" else 2000):
        h, live = [], set()
        for _ in range(rng.randrange(8, 30)):
            k = rng.random()
            if k < 0.25 or not live:
                s = rng.randrange(1, 4); live.add(s); h.append(["e", s, rng.randrange(1, 4)])
            elif k < 0.9:
                h.append(["p", rng.choice(sorted(live)), 0])
            else:
                s = rng.choice(sorted(live)); live.discard(s); h.append(["d", s, 0])
        scheds.append(h)
    drv = os.path.join(bdir, "bin", "zwdrv")
    tests = os.path.join(common.REPO, "tests")
    dwinputs = ['"%s/twocus" dwopen' % tests, '"%s/dwz-partial" dwopen' % tests, '"%s/a1.out" dwopen' % tests]
    dieinputs = ['"%s/dwz-partial" dwopen entry (pos == 1)' % tests, '"%s/dwz-partial" dwopen entry (pos == 12)' % tests,
                 '"%s/a1.out" dwopen entry (pos == 3)' % tests]
    jobs = [(p, INPUTS) for p in PROGRAMS] + [(p, dwinputs) for p in DW_PROGRAMS] + [(p, dieinputs) for p in DIE_PROGRAMS]
    # fresh runs
    fcmds, fkey = [], []
    for p, inputs in jobs:
        for i, iq in enumerate(inputs):
            fcmds.append("\t".join(["run", str(len(fcmds)), "max=500", zw.hexq("(%s) %s" % (iq, p))]))
            fkey.append((p, i))
    fres = zw.run_driver(drv, fcmds, wd, tag="fresh")
    fresh = {}
    for (p, i), r in zip(fkey, sorted([x for x in fres if "id" in x], key=lambda x: int(x["id"]))):
        fresh[(p, i)] = r
    per_prog = 150 if tier == "quick" else 1500
    cmds, meta = [], []
    for p, inputs in jobs:
        sel = scheds if len(scheds) <= per_prog else rng.sample(scheds, per_prog)
        for h in sel:
            cmds.append("\t".join(["hist", str(len(cmds)), "t=30", zw.hexq(p), sched_str(h, len(inputs))]
                                  + [zw.hexq(iq) for iq in inputs]))
            meta.append((p, inputs, h))
    res = zw.run_driver(drv, cmds, wd, tag="hist")
    byid = {r.get("id"): r for r in res}
    nontriv = set()
    for idx, (p, inputs, h) in enumerate(meta):
        r = byid.get(str(idx))
        vd.cov["evaluations"] += 1
        key = "program `%s' schedule %s" % (p, sched_str(h, len(inputs)))
        if r is None or r.get("status") != "ok":
            # a program that cannot be compiled or whose input fails is a tooling problem
            if r is not None and r.get("status") in ("parse_error", "input_error"):
                raise common.ToolError("bad program in C12 pool: %s: %s" % (p, r))
            vd.observe(key, {"why": "crash/timeout", "observed": r})
            continue
        if not r.get("inputs_intact", True):
            vd.observe(key, {"why": "input stack modified", "observed": r})
            continue
        slot_inp, slot_out, bad = {}, {}, None
        for st in r["steps"]:
            op = st["op"]
            s = int(op[1])
            if op[0] in "eE":
                slot_inp[s] = int(op[3:]); slot_out[s] = []
            elif op[0] == "d":
                slot_inp.pop(s, None)
            elif op[0] == "p" and not st.get("skip"):
                f = fresh[(p, slot_inp[s])]
                exp = f.get("results", [])
                k = len(slot_out[s])
                if "err" in st:
                    if not (f.get("status") == "runtime_error" and k == len(exp)):
                        bad = "unexpected error at pull %d of slot %d: %s" % (k, s, st["err"])
                    slot_inp.pop(s, None)
                elif st["out"] is None:
                    if k != len(exp) and f.get("status") == "ok":
                        bad = "slot %d ended after %d of %d results" % (s, k, len(exp))
                else:
                    if k >= len(exp) or json.dumps(st["out"], sort_keys=True) != json.dumps(exp[k], sort_keys=True):
                        bad = "slot %d pull %d differs from the fresh run" % (s, k)
                    slot_out[s].append(st["out"])
            if bad:
                break
        if bad:
            vd.observe(key, {"why": bad, "observed": r, "fresh": {i: fresh[(p, i)] for i in range(len(inputs))}})
        elif sum(1 for st in r["steps"] if st.get("out")) >= 2:
            nontriv.add(key)
    vd.cov["distinct_nontrivial"] = len(nontriv)
    vd.cov["traces_validated_against_impl"] += len(meta)
    vd.sample({"program": meta[3][0], "schedule": sched_str(meta[3][2], 3)})
    return vd.finish(rule="histories over result slots: all canonical schedules up to the length bound from tla/ApiGen.tla "
                     "plus random longer ones, for %d core programs (every stateful op class) and %d DWARF programs with "
                     "shared Dwarf values; each slot's pulled sequence must be a prefix of a fresh parse-and-run on that "
                     "input and end where it ends; inputs must be unchanged; the design (private buffer per result, "
                     "shared op graph) is model-checked in tla/Api.tla; non-trivial = schedules with >= 2 yielded stacks; "
                     "the caches a Dwarf value carries (root list, per-unit parent tables) are model-checked in tla/Cache.tla (histories up to the bound) "
                     "and shown history independent for histories of any length by an inductive invariant discharged with Apalache (tla/apalache/CacheInd.tla) "
                     "and every history of ?root/parent questions from tla/CacheGen.tla (plus random longer ones) over a "
                     "generated 3-unit file is asked through one compiled query on one shared Dwarf value; every program is also "
                     "compiled in two opposite orders within one process and must mean what it means in a fresh process; "
                     "a corpus of 12 DWARF/ELF queries over every ELF file under tests/ is answered in two opposite file orders "
                     "within one process (and a sample alone): no answer may depend on what was read before"
                     % (len(PROGRAMS), len(DW_PROGRAMS)), extra={"schedules": len(scheds), "cache_histories": ncache, "compile_order_programs": norder, "input_order_pairs": ncorpus})

def replay(path):
    print(open(path).read())
    return 0
