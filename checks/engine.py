"""Replay of TLC-enumerated Zwerg programs (meaning layer Zw!Den) into the real engine."""
import json, os, sys, time
sys.path.insert(0, os.path.join(os.path.dirname(os.path.abspath(__file__)), "..", "lib"))
import common, tlc, zw

STATEFUL = {"alt", "or", "cap", "sub", "infix", "let", "if", "star", "plus", "opt", "fmt",
            "scope", "letf", "bapply"}


def kinds(ast, acc=None):
    acc = acc if acc is not None else set()
    if isinstance(ast, dict):
        if "k" in ast:
            acc.add(ast["k"])
        for v in ast.values():
            kinds(v, acc)
    elif isinstance(ast, list):
        for v in ast:
            kinds(v, acc)
    return acc


def render_tree(t):
    """A node of tla/Tree.tla in the format of operator<< (std::ostream &, tree const &)."""
    tt = t["tt"]
    s = "(" + tt
    if tt in ("CONST", "SUBX_EVAL", "BIND", "READ", "F_BUILTIN"):
        s += "<" + t["x"][0] + ">"
    elif tt == "STR":
        s += "<" + "".join(t["x"]) + ">"
    for c in t["ch"]:
        s += " " + render_tree(c)
    return s + ")"


def generate(family, maxw, nshards, wd, timeout=1500, nosimp=False, light=False, twin=None):
    """Run NSHARDS TLC processes enumerating programs of FAMILY up to weight MAXW."""
    if twin is None:
        twin = family == "refeed"
    def one(sh):
        out = os.path.join(wd, "vec-%s-%d.ndjson" % (family, sh))
        r = tlc.run_tlc("Progs", constants={"MaxW": maxw, "Shard": sh, "NShards": nshards,
                                             "OutFile": out, "Family": family,
                                             "PinnedMerge": False, "WithNoSimp": nosimp, "Light": light, "WithTwin": twin},
                        workers=1, timeout=timeout, heap="6g")
        return (sh, out, r)
    res = common.parallel(one, list(range(nshards)), workers=nshards)
    vecs = []
    stats = {"total": 0, "legal": 0, "illformed": 0}
    for sh, out, r in res:
        if not r.ok or not os.path.exists(out):
            raise common.ToolError("TLC generation failed (family %s shard %d):\n%s"
                                   % (family, sh, r.out[-3000:]))
        gl = [l for l in r.out.replace("\n", " ").split("<<") if l.strip().startswith('"GEN"')]
        if gl:
            nums = [int(x) for x in __import__("re").findall(r"\b\d+\b", gl[0])]
            if len(nums) >= 5:
                stats["total"] = nums[0]
                stats["legal"] += nums[2]
                stats["illformed"] += nums[3]
        with open(out) as f:
            for line in f:
                line = line.strip()
                if line:
                    vecs.append(json.loads(line))
        os.unlink(out)
    return vecs, stats


def replay(vd, vecs, bdir, wd, pid, flavour_tag="plain", check_illformed=True,
           pos=True, keyprefix=""):
    """Run every vector through zwdrv and compare with the model.  Returns counts."""
    drv = os.path.join(bdir, "bin", "zwdrv")
    cmds = []
    texts = []
    for i, v in enumerate(vecs):
        txt = zw.unparse(v["ast"], "top")
        texts.append(txt)
        cmds.append("\t".join(["run", str(i), "max=2000,t=20" + (",tree" if "tree" in v else ""), zw.hexq(txt)]))
    for i, v in enumerate(vecs):
        if v.get("engnsok"):
            cmds.append("\t".join(["run", "n%d" % i, "max=2000,t=20,nosimp", zw.hexq(texts[i])]))
    results = zw.run_driver(drv, cmds, wd, tag="replay-" + pid + "-" + flavour_tag)
    byid = {}
    for r in results:
        if "id" in r:
            byid[r["id"]] = r
    nontrivial = set()
    mismatches = []
    pos0 = pos
    for i, v in enumerate(vecs):
        r = byid.get(str(i))
        txt = texts[i]
        vd.cov["evaluations"] += 1
        if r is None:
            raise common.ToolError("driver produced no record for command %d (%s)" % (i, txt))
        if r["status"] == "skipped-after-hangs":
            continue
        if r["status"] in ("crash", "terminate", "garbled"):
            mismatches.append((i, "crash", r))
            continue
        if v["kind"] == "illformed":
            if not check_illformed:
                continue
            ok = r["status"] == "parse_error" and ("unbound name" in r.get("err", "")
                                                   or "rebound" in r.get("err", ""))
            if not ok:
                mismatches.append((i, "illformed program accepted or wrong error", r))
            else:
                nontrivial.add(txt)
            continue
        if r["status"] == "timeout":
            mismatches.append((i, "timeout", r))
            continue
        if r["status"] != "ok":
            mismatches.append((i, "status " + r["status"] + ": " + r.get("err", ""), r))
            continue
        pos = pos0 and v.get("posfixed", True)
        exp = [zw.norm_model_stack(s, pos) for s in v["den"]]
        got = [zw.norm_real_stack(s, pos) for s in r["results"]]
        if v.get("ordered"):
            same = exp == got
        else:
            same = zw.multiset(exp) == zw.multiset(got)
        if not same:
            mismatches.append((i, "results differ", r))
            continue
        if v.get("periodic") and len(got) % 2 == 0 and got[:len(got) // 2] != got[len(got) // 2:]:
            mismatches.append((i, "two identical input stacks, fed one at a time, are not answered with the same sequence twice", r))
            continue
        if not (v["lo"] <= r["soft"] <= v["hi"]):
            mismatches.append((i, "diagnostics: %d not in [%d,%d]" % (r["soft"], v["lo"], v["hi"]), r))
            continue
        if (len(exp) > 0 or v["hi"] > 0) and (kinds(v["ast"]) & STATEFUL):
            nontrivial.add(txt)
        # binding of the mechanism layer: the exact pull sequence of this execution must be
        # the (unique) behaviour of tla/EngineOps.tla for this program
        if v.get("engok"):
            eng = [zw.norm_model_stack(s, pos) for s in v["eng"]]
            if eng == got:
                vd.cov["traces_validated_against_impl"] += 1
            else:
                vd.drift.append("pull sequence of `%s' differs from the engine model" % txt)
        # the parse tree before and after tree::simplify must be the one tla/Tree.tla builds
        if "tree" in v and "tree" in r:
            dumps = r["tree"].split("\n")
            want = [render_tree(v["tree"]), render_tree(v["stree"])]
            if dumps == want:
                vd.cov["traces_validated_against_impl"] += 1
            else:
                vd.drift.append("parse tree of `%s' differs from tla/Tree.tla: %s vs %s" % (txt, dumps, want))
        # the unsimplified tree, compiled and run: same pull sequence as BuildQueryNoSimp
        rn = byid.get("n%d" % i)
        if rn is not None and v.get("engnsok") and rn.get("status") == "ok":
            gotn = [zw.norm_real_stack(s, pos) for s in rn["results"]]
            if [zw.norm_model_stack(s, pos) for s in v["engns"]] == gotn:
                vd.cov["traces_validated_against_impl"] += 1
            else:
                vd.drift.append("pull sequence of unsimplified `%s' differs from the engine model" % txt)
    # confirm every mismatch by a second, isolated run
    confirmed = 0
    if mismatches:
        cm = []
        for (i, why, r) in mismatches[:400]:
            cm.append(cmds[i])
        again = zw.run_driver(drv, cm, wd, tag="confirm-" + pid + "-" + flavour_tag)
        againby = {a.get("id"): a for a in again}
        for (i, why, r) in mismatches[:400]:
            a = againby.get(str(i))
            stable = a is not None and json.dumps(a, sort_keys=True) == json.dumps(r, sort_keys=True)
            if not stable and a is not None and a.get("status") == r.get("status") \
                    and a.get("status") in ("timeout", "crash"):
                stable = True
            if not stable:
                vd.notes.setdefault("unstable", []).append(texts[i])
                continue
            v = vecs[i]
            rep = {"program": texts[i], "ast": v["ast"], "why": why,
                   "expected": v.get("den"), "expected_diagnostics": [v.get("lo"), v.get("hi")],
                   "ordered": v.get("ordered"), "observed": r}
            if vd.observe(keyprefix + texts[i], rep):
                confirmed += 1
    vd.cov["distinct_nontrivial"] += len(nontrivial)
    for i in range(0, len(vecs), max(1, len(vecs) // 5)):
        vd.sample({"program": texts[i], "kind": vecs[i]["kind"],
                   "expected_results": len(vecs[i].get("den", []))})
    return confirmed


ENGINE_INVARIANTS = ["OutWithinDen", "DoneMeansAll", "DiagWithin", "OrderWhereFixed", "Lifecycle",
                     "AllDeadAfterDestroy", "NeverOutOfFuel", "Compiles", "Simplified", "Periodic"]


def model_check(vd, family, maxw, workers=16, timeout=1500, pinned=False, invariants=None):
    """TLC on tla/Engine.tla: mechanism layer refines the meaning layer, over all programs of
    the family up to the weight bound, all pull counts and all abandonment points."""
    r = tlc.run_tlc("Engine", constants={"PinnedMerge": pinned, "EFamily": family, "EMaxW": maxw},
                    spec="Spec", invariants=invariants or ENGINE_INVARIANTS, workers=workers,
                    timeout=timeout, heap="12g")
    if r.violated:
        return r
    if not r.ok:
        raise common.ToolError("TLC on Engine.tla failed:\n" + r.out[-3000:])
    vd.add_states(r)
    return r
