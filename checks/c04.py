"""C04: assertions and sub-expression contexts never disturb the surrounding stack."""
import os, sys, json, random, collections
import common, tlc, zw, engine

PID = "C04"

DW_FILES = ["twocus", "dwz-partial", "a1.out", "nontrivial-types.o", "typedef.o"]
DW_P = ["entry", "entry attribute", "unit", "entry ?root child", "entry (pos < 12) dup parent", "symbol"]
DW_E = ["child", "parent", "@AT_name", "@AT_type", "attribute", "name", "root", "child child", "value", "label",
        "offset 0x40 ?lt", "@AT_name \"x\" add", "1 add", "drop", "dup dup", "child @AT_type @AT_name", "elem",
        "@AT_location elem", "?root", "!root", "(child, parent)", "child*", "[child] length 2 ?gt", "abbrev", "low"]


def skey(stack):
    return json.dumps(stack, sort_keys=True)


def run(tier):
    vd = common.Verdict(PID, tier)
    wd = common.scratch(PID)
    bdir = common.build("plain")
    rng = random.Random(common.seed())
    drv = os.path.join(bdir, "bin", "zwdrv")
    # 1. the meaning layer has the property (tla/Assert.tla), and the engine model refines it
    for fam in ("subif", "altor"):
        r = tlc.run_tlc("Assert", constants={"QFamily": fam, "QMaxW": 2}, workers=1, timeout=900)
        if not r.ok:
            if "ssumption" in r.out and "is false" in r.out:
                vd.observe("model:assert:" + fam, {"output": r.out[-4000:]})
            else:
                raise common.ToolError("TLC Assert failed\n" + r.out[-2000:])
    r = engine.model_check(vd, "subif", 2)
    if r.violated:
        vd.observe("model:engine:" + r.violated, {"output": r.out[-4000:]})
    # 2. metamorphic replay, core programs: P vs P ?(E) and P !(E); let and capture
    vecs, st = engine.generate("subif", 2, 8, wd)
    vecs2, st2 = engine.generate("altor", 2, 8, wd)
    # infix comparisons as bodies, their operands yielding no value, one value, several on both sides of the bound
    vecs2c, st2c = engine.generate("cmp", 2, 8, wd)
    vecs2 = vecs2 + vecs2c
    bodies = []
    seen = set()
    for v in vecs + vecs2:
        if v["kind"] != "stream":
            continue
        a = v["ast"]
        src, body = a["a"], a["b"]["b"]
        t = zw.unparse(body, "top")
        if t in seen:
            continue
        seen.add(t)
        bodies.append(("(" + zw.unparse(src, "top") + ")", t))
        # input stacks whose values carry positions other than 0, sequences and strings among them (what a
        # sub-expression context copies must come back with the position it had)
        for extra in ('([[7], [8, 9]] elem)', '(["a", [1], 2] elem)', '([[7], [8]] elem (1, "b"))', '("xy" elem [3] swap)'):
            bodies.append((extra, t))
    # a name that holds a block is applied when it is read: as the whole body of a sub-expression context the
    # block runs there, whatever it pops or replaces, and the surrounding stack stays as it was
    for clo in ("{1 add}", "{add}", "{drop 8}", "{drop}", "{dup}", "{swap}", "{(1, 2)}", "{drop drop 5}", "{[|A B| A] 7}", "{add ?(3 ?lt)}"):
        for e in ("F", "(F)", "F F", "G"):
            bodies.append(("1 2 (3, 4) let F := %s; let G := {F};" % clo, e))
            bodies.append(("[[7], [8, 9]] elem dup elem %s (|X F| let G := {F}; X @@)" % clo, e))
    cmds, meta = [], []
    cached = {}
    def add(q, group, kind, fileq=None):
        if (q, fileq) not in cached:           # the same query (a prefix P) is run once
            cached[(q, fileq)] = len(cmds)
            # one Dwarf value per file for the whole batch: the order between DIEs of a file and of its
            # dwz alt file follows the two handles, and P, P ?W and P !W must see the same ones
            cmds.append("\t".join(["run", str(len(cmds)), "max=3000,t=30" + (",share" if fileq else ""), zw.hexq(q)]
                                  + ([fileq] if fileq else [])))
        meta.append((group, kind, q, cached[(q, fileq)]))
    groups = []
    for src, e in bodies:
        g = len(groups)
        groups.append((src, e, None))
        def w(tail, src=src):          # `@@' in the prefix: where the rest goes (inside a scope the prefix opens)
            return src.replace("@@", tail) if "@@" in src else (src + " " + tail).rstrip()
        add(w(""), g, "P")
        add(w("?(%s)" % e), g, "pos")
        add(w("!(%s)" % e), g, "neg")
        add(w("let X_ := %s;" % e), g, "let")
        add(w("[%s]" % e), g, "cap")
        add(w("((%s) == (%s))" % (e, e)), g, "infix-eq")
        add(w("((%s) != (%s))" % (e, e)), g, "infix-ne")
        if "let F" in src or "|X F|" in src:
            add(w("(%s == %s)" % (e, e)), g, "infix-eq2")
    # 3. the same laws with DWARF vocabulary on real inputs
    tests = os.path.join(common.REPO, "tests")
    for f in DW_FILES:
        for p in DW_P:
            for e in DW_E:
                g = len(groups)
                groups.append((p, e, f))
                fq = os.path.join(tests, f)
                add(p, g, "P", fq)
                add("%s ?(%s)" % (p, e), g, "pos", fq)
                add("%s !(%s)" % (p, e), g, "neg", fq)
                add("%s let X_ := %s;" % (p, e), g, "let", fq)
                add("%s [%s]" % (p, e), g, "cap", fq)
    # 4. every ?word / !word of the vocabulary, bare, on values of the kind it tests (exact partition) and on
    #    other kinds (nothing invented or altered); DIEs that inherit attributes through
    #    DW_AT_abstract_origin / DW_AT_specification are in nullptr.o
    wr = zw.run_driver(drv, ["words\tw\t-\t00"], wd, tag="words")
    import re
    bases = sorted(set(w[1:] for w in wr[0]["words"] if w[0] in "?!"))
    def prefixes(w):
        if re.match(r"^(DW_)?AT_", w): return ["entry", "entry attribute"]
        if re.match(r"^(DW_)?TAG_", w): return ["entry", "abbrev entry"]
        if re.match(r"^(DW_)?FORM_", w): return ["entry attribute", "abbrev entry attribute"]
        if re.match(r"^(DW_)?OP_", w): return ["entry @AT_location", "entry @AT_location elem"]
        return ["entry", "entry attribute", "entry dup parent", "entry @AT_name dup", "entry [child] dup", "entry @AT_name \"a\"",
                "entry @AT_location address dup", "1 2", "[1] [1, 2]"]
    nbare = 0
    # location expressions in which an operation occurs once, twice, three times (?OP_x on a whole expression
    # counts matches: any count but zero must mean yes)
    sys.path.insert(0, os.path.join(common.VERIF, "gen"))
    import dwarfgen
    kids = []
    fill = {0x10: [5], 0x91: [-8], 0x93: [4], 0x23: [1], 0x70: [2], 0x08: [7]}
    for k, opc in enumerate([0x33, 0x50, 0x96, 0x9f, 0x10, 0x91, 0x93, 0x23, 0x70, 0x08, 0x12, 0x06]):
        arg = fill.get(opc, [])
        other = (0x31, [])                          # lit1
        for j, ops in enumerate([[(opc, arg)], [(opc, arg), (opc, arg)], [(opc, arg), other, (opc, arg), other, (opc, arg)], [other, other]]):
            kids.append({"id": 100 + 4 * k + j, "tag": 0x34, "children": [], "attrs": [{"name": 3, "form": "string", "value": "v%d_%d" % (k, j)},
                                                                                       {"name": 2, "form": "exprloc", "value": ops}]})
    repo, _, _ = dwarfgen.build({"units": [{"kind": "cu", "version": 4, "table": 0, "root": {"id": 1, "tag": 0x11, "children": kids, "attrs": []}}]}, wd, "repops")
    for f in ("nullptr.o", "a1.out", repo):
        fq = f if os.path.isabs(f) else os.path.join(tests, f)
        for w in bases:
            if f == repo and not re.match(r"^(DW_)?OP_", w):
                continue
            if w in ("=", "~"):          # != and !~ are infix operators, not words
                continue
            for pfx in prefixes(w):
                g = len(groups)
                groups.append((pfx, "bare " + w, os.path.basename(f)))
                add(pfx, g, "P", fq)
                add("%s ?%s" % (pfx, w), g, "pos", fq)
                add("%s !%s" % (pfx, w), g, "neg", fq)
                nbare += 1
    res = zw.run_driver(drv, cmds, wd, tag="meta")
    byid = {r.get("id"): r for r in res}
    bygroup = collections.defaultdict(dict)
    for (g, kind, q, ci) in meta:
        bygroup[g][kind] = (q, byid.get(str(ci)))
    nontriv = 0
    for g, d in bygroup.items():
        src, e, f = groups[g]
        vd.cov["evaluations"] += len(d) - 1
        P = d["P"][1]
        if P is None or P.get("status") != "ok":
            continue          # the prefix itself is not a valid program here (e.g. symbol on a DWARF-less file)
        base = collections.Counter(skey(s) for s in P["results"])
        key0 = "%s E=`%s' P=`%s'" % (f or "core", e, src)
        pos, neg = d["pos"][1], d["neg"][1]
        if pos is None or neg is None or pos.get("status") in ("crash", "timeout", "terminate") \
                or neg.get("status") in ("crash", "timeout", "terminate"):
            vd.observe("assert " + key0, {"why": "crash/timeout", "pos": pos, "neg": neg})
            continue
        if pos.get("status") == "ok" and neg.get("status") == "ok":
            cp = collections.Counter(skey(s) for s in pos["results"])
            cn = collections.Counter(skey(s) for s in neg["results"])
            soft = pos.get("soft", 0) + neg.get("soft", 0)
            if soft == 0:
                if cp + cn != base:
                    vd.observe("assert " + key0, {"why": "?(E) and !(E) do not partition the input",
                                                  "P": d["P"], "pos": d["pos"], "neg": d["neg"]})
                else:
                    nontriv += 1 if len(base) else 0
            else:
                # the test itself failed for some stacks: neither may invent or alter stacks
                if (cp - base) or (cn - base) or ((cp + cn) - base):
                    vd.observe("assert " + key0, {"why": "assertion yielded a stack it was not given",
                                                  "P": d["P"], "pos": d["pos"], "neg": d["neg"]})
        elif pos.get("status") != neg.get("status"):
            # hard errors (e.g. empty stack) must hit both flavours alike
            vd.observe("assert " + key0, {"why": "status differs between ?(E) and !(E)", "pos": pos, "neg": neg})
        for kind in ("infix-eq", "infix-ne", "infix-eq2"):
            if kind not in d:
                continue
            if kind in d and d[kind][1] and d[kind][1].get("status") == "ok":
                c = collections.Counter(skey(s) for s in d[kind][1]["results"])
                if c - base:
                    vd.observe("infix " + key0, {"why": "infix assertion altered the stack", "P": d["P"], kind: d[kind]})
        if "let" not in d:
            continue
        let = d["let"][1]
        if let and let.get("status") == "ok":
            c = collections.Counter(skey(s) for s in let["results"])
            if set(c) - set(base):
                vd.observe("let " + key0, {"why": "let ... := E; changed the stack", "P": d["P"], "let": d["let"]})
        cap = d["cap"][1]
        if cap and cap.get("status") == "ok":
            below = collections.Counter(skey(s[:-1]) for s in cap["results"])
            ok = all(s and s[-1]["t"] == "seq" for s in cap["results"])
            if not ok or (below != base and cap.get("soft", 0) == 0) or (below - base):
                vd.observe("capture " + key0, {"why": "[E] did not leave the stack intact plus one sequence",
                                               "P": d["P"], "cap": d["cap"]})
    vd.cov["distinct_nontrivial"] = nontriv
    vd.cov["traces_validated_against_impl"] = 0
    vd.sample({"P": meta[1][2], "pos": meta[1][2], "group": list(groups[0])})
    vd.sample({"query": meta[-3][2], "file": groups[-1][2]})
    return vd.finish(rule="tla/Assert.tla states the property on the meaning layer for all bodies E of families subif/altor "
                     "(weight <= 2, any stack effect, multi-yield, soft-failing); the engine model is checked against it; on "
                     "the implementation, for every such E and for %d DWARF sub-expressions on %d sample files: results of "
                     "P ?(E) and P !(E) partition the results of P element-wise (values, positions, depth), infix forms "
                     "yield only unchanged inputs, `let X := E;` yields only input stacks, `[E]` yields input + one "
                     "sequence; non-trivial = groups with a non-empty input stream" % (len(DW_E), len(DW_FILES)))

def replay(path):
    print(open(path).read())
    return 0
