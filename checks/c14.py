"""C14: any byte string is either compiled or rejected with an error through the API."""
import binascii, os, sys, json, random, subprocess
import common, tlc, zw

PID = "C14"

SPELL = {"(": ["("], ")": [")"], "?(": ["?("], "!(": ["!("], "[": ["["], "]": ["]"], "{": ["{"], "}": ["}"],
         "?{": ["?{"], "!{": ["!{"], "*": ["*"], "+": ["+"], "?": ["?"], ",": [","], "||": ["||"], "|": ["|"],
         ":": [":"], ";": [";"], ":=": [":="], "if": ["if"], "then": ["then"], "else": ["else"], "let": ["let"],
         "W": ["dup", "swap"], "NW": ["?0", "!1"], "N": ["1", "0x10", "-3"], "OP": ["==", "<"],
         "S": ['"a"', '"%s"', 'r"\\n"'], "US": ['"a', '"%( 1', '"%( "x %)"'], "BN": ["0x", "08", "1z", "99999999999999999999999"]}

INT_PREFIXES = ["", "-", "0x", "-0x", "0X", "0", "-0", "0o", "0O", "0b", "-0b", "0B"]
INT_BODIES = ["", "0", "1", "7", "8", "9", "f", "g", "10", "18446744073709551615", "18446744073709551616",
              "ffffffffffffffff", "10000000000000000", "1777777777777777777777", "2000000000000000000000",
              "9223372036854775807", "9223372036854775808", "9223372036854775809", "1" * 64, "1" * 65, "0" * 70 + "1",
              "1_0", "1x", "z"]


def gen_tokens(n, wd, shards=14):
    def one(sh):
        out = os.path.join(wd, "gram-%d.ndjson" % sh)
        r = tlc.run_tlc("GrammarGen", constants={"MaxN": n, "Shard": sh, "NShards": shards, "OutFile": out},
                        workers=1, timeout=1500, heap="6g")
        return out, r
    vecs = []
    for out, r in common.parallel(one, list(range(shards)), workers=shards):
        if not r.ok or not os.path.exists(out):
            raise common.ToolError("GrammarGen failed\n" + r.out[-2000:])
        vecs += [json.loads(l) for l in open(out) if l.strip()]
        os.unlink(out)
    return vecs


def damaged_inputs(vd, drv, wd):
    """Run-time failures caused by the input, and what they leave behind (shared with C12)."""
    # 5b. run-time failures caused by the input: a well-formed file whose .debug_info is damaged at one DIE (an
    #     abbreviation code that the table does not have).  Every query is executed twice on the same Dwarf
    #     value: each execution either yields or fails through zw_result_next, and the second one behaves as
    #     the first (nothing half-built may be left behind by the failure).
    sys.path.insert(0, os.path.join(common.VERIF, "gen"))
    import dwarfgen
    def mk(i, tag, kids=(), attrs=()):
        return {"id": i, "tag": tag, "children": list(kids), "attrs": [{"name": 3, "form": "string", "value": "d%d" % i}] + list(attrs)}
    forest = {"units": [
        {"kind": "cu", "version": 4, "table": 0, "root": mk(1, 0x11, [
            mk(2, 0x24), mk(3, 0x34, attrs=[{"name": 0x49, "form": "ref4", "value": 6}]), mk(4, 0x39, [mk(5, 0x34)]),
            mk(6, 0x24), mk(7, 0x34, attrs=[{"name": 0x49, "form": "ref4", "value": 2}])])},
        {"kind": "cu", "version": 4, "table": 1, "root": mk(10, 0x11, [mk(11, 0x34), mk(12, 0x34)])}]}
    good, offs, _ = dwarfgen.build(forest, wd, "damaged-base")
    hdr = subprocess.run(["readelf", "-SW", good], stdout=subprocess.PIPE).stdout.decode()
    m = __import__("re").search(r"\.debug_info\s+PROGBITS\s+[0-9a-f]+\s+([0-9a-f]+)\s+([0-9a-f]+)", hdr)
    if not m:
        raise common.ToolError("no .debug_info in the generated file")
    base = int(m.group(1), 16)
    blob = open(good, "rb").read()
    dcmds, dmeta = [], []
    DQ = ["entry", "entry parent", "entry @AT_type parent", "entry child", "entry ?root", "[entry] length", "unit root child",
          "entry @AT_type (|T| T parent, T root)", "raw entry attribute value"]
    for did in (2, 4, 5, 6, 11, 12):
        bad = bytearray(blob)
        bad[base + offs["die_%d" % did]] = 0x7f          # the abbreviation code of that DIE
        bp = os.path.join(wd, "damaged-%d.o" % did)
        open(bp, "wb").write(bytes(bad))
        for q in DQ:
            dcmds.append("\t".join(["run", str(len(dcmds)), "max=200,t=30,twice", zw.hexq(q), bp])); dmeta.append((did, q))
    dres = zw.run_driver(drv, dcmds, wd, tag="damaged")
    dby = {r.get("id"): r for r in dres}
    nfail = 0
    for i, (did, q) in enumerate(dmeta):
        vd.cov["evaluations"] += 1
        r = dby.get(str(i)) or {}
        key = "damaged DWARF (DIE %d): `%s'" % (did, q)
        if r.get("status") not in ("ok", "runtime_error") or (r.get("status") == "runtime_error" and not r.get("err")) \
                or r.get("err", "").startswith("@@"):
            vd.observe(key + " does not end in a result or a reported failure", {"observed": r}); continue
        sec = r.get("second") or {}
        if (sec.get("status"), sec.get("err"), json.dumps(sec.get("results"), sort_keys=True)) != \
           (r.get("status"), r.get("err"), json.dumps(r.get("results"), sort_keys=True)):
            vd.observe(key + ": the second execution on the same Dwarf value differs from the first", {"first": {k: r.get(k) for k in ("status", "err")}, "second": sec})
        elif r.get("status") == "runtime_error":
            nfail += 1
    if nfail == 0:
        raise common.ToolError("C14: none of the damaged files made a query fail")


PAYLOAD = {"0": 0, "7": 7, "-1": -1, "imin": -2**63, "imax": 2**63 - 1, "umax": 2**64 - 1}
STRBYTES = {"": b"", "ab": b"ab", "a-NUL-b": b"a\x00b"}


def _render(n, dom):
    if dom == "dec": return str(n)
    if dom == "hex": return "0" if n == 0 else ("-0x%x" % -n if n < 0 else "0x%x" % n)
    if dom == "bool" and n in (0, 1): return ("false", "true")[n]
    return None                      # not decided here (C20 decides renderings)


def api_objects(vd, drvdir, wd, tier, memory=False):
    """tla/ApiObj.tla: values, stacks and their owners through the public C API.  TLC explores every call sequence
    within small bounds (OwnershipOK, Stable; two mutants as self-test) and draws random longer call sequences with
    the expected state after every call; harness/apidrv.cc (libzwerg.h only) replays them on the sanitizer build:
    the contract of every fallible call, the contents as the accessors show them, and -- MEMORY -- no leak, double
    free or use after free once everything that the model says is alive has been destroyed.  Shared by C14 and C13."""
    base = {"MaxVals": 4, "MaxStks": 2, "MaxOps": 5 if tier == "quick" else 6, "CloneRenumbers": False}
    ov = {"Payloads": "MCPayloads", "Doms": "MCDoms", "Strs": "MCStrs", "Queries": "MCQueries"}
    for mut in ("none", "take-keeps", "push-shares"):
        r = tlc.run_tlc("ApiObj", constants=dict(base, Mut=mut), spec="Spec", invariants=["OwnershipOK"], props=["Stable"], overrides=ov,
                        workers=6, timeout=1500, heap="8g")
        if mut == "none":
            if r.violated:
                vd.observe("model:apiobj:" + r.violated, {"output": r.out[-3000:]})
            elif not r.ok:
                raise common.ToolError("TLC ApiObj failed\n" + r.out[-2000:])
            vd.add_states(r)
        elif r.violated != "OwnershipOK":
            raise common.ToolError("ApiObj.tla: the mutant %s is not caught\n" % mut + r.out[-1500:])
    out = os.path.join(wd, "apiobj.ndjson")
    nb = 300 if tier == "quick" else 3000
    r = tlc.run_tlc("ApiObjGen", constants={"MaxVals": 14, "MaxStks": 5, "MaxOps": 0, "CloneRenumbers": False, "Mut": "none", "OutFile": out,
                                            "NBehaviours": nb, "Len0": 18}, spec="Spec", workers=1, timeout=1500, heap="6g")
    if not r.ok or not os.path.exists(out):
        raise common.ToolError("ApiObjGen failed\n" + r.out[-2000:])
    behs = [json.loads(l) for l in open(out) if l.strip()]
    def script(op):
        a = list(op)
        if a[0] == "str": a[1] = zw.hexq(STRBYTES[a[1]])
        elif a[0] == "exec": a[1] = zw.hexq(a[1]) or ""
        return ",".join(a)
    cf = os.path.join(wd, "apiobj.txt")
    with open(cf, "w") as f:
        for b in behs:
            f.write("%d\t%s\n" % (b["b"], ";".join(script(s["op"]) for s in b["steps"])))
    env = dict(os.environ)
    env["ASAN_OPTIONS"] = "detect_leaks=1:abort_on_error=0:exitcode=77"
    env["UBSAN_OPTIONS"] = "print_stacktrace=1:halt_on_error=1:exitcode=78"
    pr = subprocess.run([os.path.join(drvdir, "bin", "apidrv"), cf], stdout=subprocess.PIPE, stderr=subprocess.PIPE, env=env, timeout=1800)
    lines = [json.loads(l) for l in pr.stdout.decode("utf-8", "replace").splitlines() if l.startswith("{")]
    bystep = {(l["id"], l["step"]): l for l in lines}
    if pr.returncode != 0:
        errtxt = pr.stderr.decode("utf-8", "replace")
        what = "leak" if "LeakSanitizer" in errtxt else "sanitizer report or crash"
        if memory or what != "leak":
            last = lines[-1] if lines else {}
            vd.observe("api objects: %s (exit status %d) after behaviour %s step %s" % (what, pr.returncode, last.get("id"), last.get("step")),
                       {"stderr": errtxt[-3000:], "file": cf})
    def want_desc(rec):
        n = PAYLOAD.get(rec["v"])
        if rec["kind"] == "cst":
            d = {"k": "cst", "sgn": rec["sgn"], "v": str(n), "pos": rec["pos"]}
            t = _render(n, rec["dom"])
            if t is not None: d["txt"] = binascii.hexlify(t.encode()).decode()
            return d
        if rec["kind"] == "str":
            return {"k": "str", "hex": binascii.hexlify(STRBYTES[rec["v"]]).decode(), "pos": rec["pos"]}
        t = _render(n, rec["dom"])                  # the result of zw_value_const_format
        d = {"k": "str", "pos": 0}
        if t is not None: d["hex"] = binascii.hexlify(t.encode()).decode()
        return d
    def same(want, got):
        return got is not None and all(got.get(k) == v for k, v in want.items())
    nsteps = 0
    for b in behs:
        for i, stp in enumerate(b["steps"]):
            vd.cov["evaluations"] += 1
            got = bystep.get((str(b["b"]), i + 1))
            key = "api objects: behaviour %d step %d `%s'" % (b["b"], i + 1, ",".join(stp["op"]))
            if got is None:
                if pr.returncode == 0:
                    vd.observe(key + ": no record", {})
                break
            if "contract" in got:
                vd.observe(key + ": contract: " + got["contract"], {"observed": got}); break
            st = stp["after"]
            # a query on a stack that is too shallow for it fails at run time (reported, nothing handed out)
            shallow = stp["op"][0] == "exec" and len(st["stks"]) == (len(b["steps"][i - 1]["after"]["stks"]) if i else 0)
            if got["ok"] == shallow or (shallow and not got.get("err")):
                vd.observe(key + ": %s" % ("failed" if not got["ok"] else "succeeded where the model says it fails"), {"observed": got}); break
            bad = None
            for vi, rec in enumerate(st["vals"]):
                if rec["own"] == "c" and not same(want_desc(rec), got["vals"].get(str(vi + 1))):
                    bad = ("value %d" % (vi + 1), want_desc(rec), got["vals"].get(str(vi + 1)))
            if set(got["vals"]) != {str(vi + 1) for vi, rec in enumerate(st["vals"]) if rec["own"] == "c"}:
                bad = ("the client's values", sorted(got["vals"]), None)
            for k, sk in enumerate(st["stks"]):
                gs = got["stks"].get(str(k + 1))
                if not sk["live"]:
                    if gs is not None: bad = ("stack %d is alive" % (k + 1), None, gs)
                    continue
                if gs is None or len(gs) != len(sk["items"]) or not all(same(want_desc(st["vals"][v - 1]), g) for v, g in zip(sk["items"], gs)):
                    bad = ("stack %d" % (k + 1), [want_desc(st["vals"][v - 1]) for v in sk["items"]], gs)
            if bad:
                vd.drift.append("%s: %s: model %s, library %s" % (key, bad[0], json.dumps(bad[1])[:300], json.dumps(bad[2])[:300])); break
            nsteps += 1
    vd.cov["traces_validated_against_impl"] = vd.cov.get("traces_validated_against_impl", 0) + nsteps
    return nsteps


def run(tier):
    vd = common.Verdict(PID, tier)
    wd = common.scratch(PID)
    rng = random.Random(common.seed())
    plain = common.build("plain")
    san = common.build("san")
    os.environ["ASAN_OPTIONS"] = "detect_leaks=0:abort_on_error=0:exitcode=77"
    os.environ["UBSAN_OPTIONS"] = "print_stacktrace=1:halt_on_error=1:exitcode=78"
    # 1. token-class strings from the grammar model, with the verdict of the recogniser
    n = 4 if tier == "quick" else 5
    vecs = gen_tokens(3, wd) if tier == "quick" else gen_tokens(4, wd)
    vd.cov["states"] = len(vecs); vd.cov["transitions"] = len(vecs)
    if tier == "quick":
        # n = 4 over the full alphabet is 6*10^5 strings: TLC decides a seeded sample of them
        pass
    cmds, meta = [], []
    def add(kind, txt, flags="t=20", model=None):
        if isinstance(txt, str):
            txt = txt.encode("utf-8", "surrogateescape")
        cmds.append("\t".join(["parse", str(len(cmds)), flags, zw.hexq(txt)]))
        meta.append((kind, txt, model))
    for v in vecs:
        toks = v["t"]
        for variant in range(2):
            words = [SPELL[t][0] if variant == 0 else rng.choice(SPELL[t]) for t in toks]
            txt = " ".join(words)
            # the verdict of the model refers to the canonical spelling; alternative spellings of strings may
            # change it (e.g. `let "%s" := ;' needs a simple string), so only the contract is checked for them
            add("tokens", txt, "t=20" + (",z" if variant else ""), v["v"] if variant == 0 else None)
    # 2. raw bytes: every single byte, every pair (quick: sampled), with and without terminator
    for b in range(256):
        add("byte", bytes([b])); add("byte", bytes([b]), "t=20,z" if b else "t=20")
    pairs = [(a, b) for a in range(256) for b in range(256)]
    for a, b in (pairs if tier == "thorough" else rng.sample(pairs, 6000)):
        add("bytes2", bytes([a, b]))
    # 3. integer literals with every prefix
    for p in INT_PREFIXES:
        for body in INT_BODIES:
            add("intlit", p + body); add("intlit", "1 " + p + body + " add")
    # 3b. string escapes and format directives: every byte after a backslash and after a percent sign, every
    #     octal escape with 1-3 digits, every \xHH, malformed ones, in plain, raw, continued and nested strings
    for b in range(256):
        add("escape", b'"\\' + bytes([b]) + b'"'); add("escape", b'r"\\' + bytes([b]) + b'"')
        add("escape", b'"%' + bytes([b]) + b'"'); add("escape", b'1 "%( "\\' + bytes([b]) + b'" %)"')
    for n in range(0o1000):
        add("escape", '"\\%o"' % n); add("escape", '"\\%03o"' % n)
    for n in range(64):
        add("escape", '"a"\\ "\\%o7"' % n)
    for n in range(256):
        add("escape", '"\\x%02x"' % n); add("escape", '"\\x%X"' % n)
    for bad in ['"\\x"', '"\\xg1"', '"\\x1"', '"\\x1g"', '"\\8"', '"\\9"', '"\\', '"\\x', '"%', '"%(', '"%)"', 'r"\\"', '"\\"\\']:
        add("escape", bad)
    # 4. mutations of valid programs: deletions, insertions, swaps, NULs, truncation at every length
    seeds = ['(1, 2) ((3, 4) || 5)', 'let A B := 1 2; [A, B] elem', '"x%( 1 "y%s" %)z" length', 'if ?(1) then "a" else (2)?',
             '[|A| A]* !(1 == 2)', '{|X| X 1 add} apply', '1 "%s %d %x %o %b" "\\x41\\101\\n\\""', 'r"raw\\" "\\ "cont"',
             '(|A| A) /* c */ # d\n // e\n 2', 'entry ?root child+ (pos == 0)', '?TAG_subprogram @AT_name =~ "ma.*"']
    for s in seeds:
        bs = s.encode()
        for k in range(len(bs) + 1):
            add("truncate", bs[:k])
        for _ in range(60 if tier == "quick" else 600):
            m = bytearray(bs)
            for _ in range(rng.randrange(1, 4)):
                op = rng.randrange(4)
                if not m:
                    break
                i = rng.randrange(len(m))
                if op == 0: del m[i]
                elif op == 1: m.insert(i, rng.choice(b'()[]{}"%\\|,;:*+?!@#/ \n\x00\xff\x80') )
                elif op == 2 and len(m) > 1:
                    j = rng.randrange(len(m)); m[i], m[j] = m[j], m[i]
                else: m[i] = rng.randrange(256)
            add("mutation", bytes(m), "t=20,exec,max=20")
    # run on the sanitizer build: crashes, over-reads (guard page + ASan), aborts, hangs
    res = zw.run_driver(os.path.join(san, "bin", "zwdrv"), cmds, wd, tag="parse", max_hangs=10**9)   # mutated programs may legitimately run out of budget
    byid = {r.get("id"): r for r in res}
    nontriv = 0
    for i, (kind, txt, model) in enumerate(meta):
        r = byid.get(str(i))
        vd.cov["evaluations"] += 1
        shown = txt.decode("utf-8", "backslashreplace")
        if r is None:
            raise common.ToolError("no record for command %d" % i)
        st = r.get("status")
        if st in ("crash", "terminate", "garbled"):
            vd.observe("parse crash `%s'" % shown, {"kind": kind, "bytes": list(txt), "observed": r})
            continue
        if st == "timeout":
            # a hang: in compilation, or in executing accepted garbage under the small budget
            if "exec" not in cmds[i]:
                vd.observe("parse hang `%s'" % shown, {"kind": kind, "bytes": list(txt)})
            continue
        if "contract" in r:
            vd.observe("api contract `%s': %s" % (shown, r["contract"]), {"observed": r})
            continue
        if model is not None:
            if (st == "accepted") != (model == "ok"):
                vd.drift.append("grammar model says %s, implementation %s: `%s'" % (model, st, shown))
            else:
                nontriv += 1
        if st == "accepted" and isinstance(r.get("exec"), dict):
            ex = r["exec"]
            if ex.get("status") == "contract":
                vd.observe("api contract at run time `%s'" % shown, {"observed": r})
    vd.cov["distinct_nontrivial"] = nontriv
    # 5. run-time failures surface through zw_result_next at the right pull index; CLI: stderr + status 2
    rcmds, rmeta = [], []
    for k in range(0, 4):
        q = "[0, 1, 2, 3] elem (?%d drop drop ||)" % k
        rcmds.append("\t".join(["run", str(len(rcmds)), "max=50", zw.hexq(q)])); rmeta.append((q, k))
    rr = zw.run_driver(os.path.join(plain, "bin", "zwdrv"), rcmds, wd, tag="rt")
    for r, (q, k) in zip(sorted(rr, key=lambda x: int(x["id"])), rmeta):
        vd.cov["evaluations"] += 1
        if r.get("status") != "runtime_error" or len(r.get("results", [])) != k or not r.get("err"):
            vd.observe("run-time failure at pull %d `%s'" % (k, q), {"observed": r})
    damaged_inputs(vd, os.path.join(san, "bin", "zwdrv"), wd)
    # 5c. every word of the vocabulary on stacks that are too shallow for it (empty, one value, two values of
    #     several types): a result, a diagnostic or a reported failure -- never a crash
    wr = zw.run_driver(os.path.join(plain, "bin", "zwdrv"), ["words\tw\t-\t00"], wd, tag="words")
    ucmds, umeta = [], []
    for w in wr[0]["words"]:
        if w in ("=", "~") or w.startswith("~"):
            continue
        for pre in ("", "1", "\"s\"", "[]", "1 2", "\"s\" [1]"):
            q = (pre + " " + w).strip()
            ucmds.append("\t".join(["run", str(len(ucmds)), "max=20,t=20", zw.hexq(q)])); umeta.append(q)
    ures = zw.run_driver(os.path.join(san, "bin", "zwdrv"), ucmds, wd, tag="underflow")
    uby = {r.get("id"): r for r in ures}
    for i, q in enumerate(umeta):
        vd.cov["evaluations"] += 1
        r = uby.get(str(i)) or {}
        if r.get("status") not in ("ok", "runtime_error", "parse_error", "maxres") or r.get("err", "").startswith("@@") \
                or (r.get("status") == "runtime_error" and not r.get("err")):
            vd.observe("word on a shallow stack `%s'" % q, {"observed": r})
    dw = os.path.join(plain, "bin", "dwgrep")
    for q, want in [("(", 2), ("1 drop drop", 2), ('"abc', 2), ("[0, 1] elem (?1 drop drop ||)", 2), ("0x", 2)]:
        pr = subprocess.run([dw, "-e", q], stdout=subprocess.PIPE, stderr=subprocess.PIPE, timeout=30)
        vd.cov["evaluations"] += 1
        if pr.returncode != want or not pr.stderr.strip():
            vd.observe("cli failure reporting `%s'" % q, {"rc": pr.returncode, "stderr": pr.stderr.decode()[:300]})
    # other fallible API calls: opening files
    tests = os.path.join(common.REPO, "tests")
    fcmds = []
    for f in ["/nonexistent", os.path.join(tests, "tests.sh"), os.path.join(tests, "empty"), "/dev/null", tests]:
        fcmds.append("\t".join(["run", str(len(fcmds)), "max=5", zw.hexq("entry"), f]))
    fr = zw.run_driver(os.path.join(san, "bin", "zwdrv"), fcmds, wd, tag="open")
    for r in fr:
        vd.cov["evaluations"] += 1
        if r.get("status") in ("crash", "terminate") or (r.get("status") == "open_error" and not r.get("err")) \
                or r.get("err", "").startswith("@@"):
            vd.observe("api contract on open", {"observed": r})
    # 6. nesting and length far beyond what anybody writes: every construct that nests, and every chain that
    #    grows, at depths up to 30000 -- compiled or rejected, never a crash (recursion on the C stack: the
    #    parser of every %( %), tree::simplify, build_exec, destructors).  On the plain build: the frames of the
    #    instrumented one are several times larger, its stack ends earlier without that being a defect.
    NEST = [("(", "1", ")"), ("[", "1", "]"), ("{", "1", "}"), ("?(", "1", ")"), ("!(", "1", ")"), ('"%( ', "1", ' %)"'),
            ('"%( ', '"%s"', ' %)"'), ('"a %( [', "1", '] %)"'), ("if 1 then ", "1", " else 1"), ("(1, ", "1", ")"), ("(1 || ", "1", ")"),
            ("let A := ", "1", ";"), ("(|A| ", "1", ")"), ("[|A| ", "1", "]"), ("{|A| ", "1", "}"), ("", "1", " 1 add"), ("", "1", "*"),
            ("", "1", "+"), ("", "1", "?"), ("1 ", "", ""), ("", "1", ", 1"), ("", "1", " || 1"), ("(1 == ", "1", ")"), ("?{", "1", "}"),
            ('"a"', "", '\\ "b"'), ("", "1", ' "%s"'), ("", '"', "%s"), ("", '"', "%( 1 %)"), ("{", "", "} apply"), ("let A := {", "1", "}; A")]
    ncmds, nmeta = [], []
    for (o, m, c) in NEST:
        # (compile time grows with the cube of the depth for some constructs -- nested infix operators take 8 s at
        # depth 1024 and 50 s at 2048 on an idle machine: slow, not hung; the budget per text is ten minutes)
        for n in ((64, 1024, 3300, 8192, 30000) if tier == "quick" else (64, 255, 256, 1024, 1900, 2048, 3300, 3400, 5000, 8192, 12000, 30000, 100000)):
            txt = o * n + m + c * n + ('"' if m == '"' else "")
            ncmds.append("\t".join(["parse", str(len(ncmds)), "t=600", zw.hexq(txt.encode())])); nmeta.append((o, m, c, n))
    nby = {r.get("id"): r for r in zw.run_driver(os.path.join(plain, "bin", "zwdrv"), ncmds, wd, tag="nest", max_hangs=3)}
    for i, (o, m, c, n) in enumerate(nmeta):
        vd.cov["evaluations"] += 1
        r = nby.get(str(i)) or {}
        if r.get("status") == "skipped-after-hangs":
            continue                       # three hangs are reported; the rest of the sweep is not run on such a tree
        if r.get("status") not in ("accepted", "rejected") or "contract" in r:
            vd.observe("deep nesting: `%s' x %d around `%s' closed by `%s' x %d: %s" % (o, n, m, c, n, r.get("status")), {"observed": r})
    vd.cov["traces_validated_against_impl"] = nontriv
    # 7. the other fallible calls: values and stacks (tla/ApiObj.tla), on the sanitizer build
    api_objects(vd, san, wd, tier)
    vd.sample({"tokens": vecs[len(vecs) // 2], "spelled": meta[len(vecs)][1].decode("utf-8", "replace")})
    vd.sample({"mutation": meta[-1][1].decode("utf-8", "backslashreplace")})
    return vd.finish(rule="(1) every token-class string up to length %d over the 28-class alphabet of tla/Grammar.tla (incl. "
                     "unterminated strings / malformed integers), two spellings each, through zw_query_parse_len with an "
                     "exact-length buffer ending at an inaccessible page (and zw_query_parse) on the ASan+UBSan build: "
                     "exactly one of query / NULL+non-empty message, no crash, abort, hang; the recogniser's verdict is "
                     "compared as model binding; (2) all single bytes, sampled byte pairs; (3) integer literals: %d "
                     "prefix x body combinations; (4) truncations at every length and random mutations (incl. NUL, high "
                     "bytes) of %d seed programs, accepted ones executed under a budget; (5) run-time failures at pull "
                     "index 0..3, CLI stderr + status 2, file-open failures; (6) every nesting construct and every growing chain at depths 64 .. 30000 (100000 in the thorough tier): compiled or rejected, no crash; (7) tla/ApiObj.tla: values, stacks and their owners -- every call sequence within small bounds explored by TLC (OwnershipOK, Stable, two mutants), random sequences of 18 calls replayed through libzwerg.h alone (harness/apidrv.cc) with the contract of every fallible call and the contents after every call compared; non-trivial = strings whose accept/reject "
                     "matches the grammar model" % (3 if tier == "quick" else 4, len(INT_PREFIXES) * len(INT_BODIES), len(seeds)))

def replay(path):
    print(open(path).read())
    return 0
