"""C05: navigation words (parent/child/root/unit/entry) agree on every DIE."""
import os, sys, json, glob, collections
import common, tlc, zw, dwarfchk as D

PID = "C05"
Q_NAV = "entry (|D| [D, [D child], [D parent], [D root], [D ?root 1], [D unit offset]])"
Q_NAV_RAW = "raw entry (|D| [D, [D child], [D parent], [D root], [D ?root 1], [D unit offset]])"
# law queries: every one must yield nothing
LAWS = [
    ("child's parent is the DIE", "entry (|D| D child parent (!= D))"),
    ("root is the end of the parent chain", "entry (|D| D parent* !(parent) (!= D root))"),
    ("root satisfies ?root", "entry root !root"),
    ("unit entry equals entry", "(|Dw| [Dw unit entry] != [Dw entry]) 1"),
    ("unit DIEs are root child*", "unit (|U| [U entry offset] (|A| [U root child* offset] (|B| A elem !(== B elem), B elem !(== A elem))))"),
    ("the raw entries of a DIE's unit list it", "entry (|D| D !(unit raw entry (offset == D offset)))"),
    ("a child has the root of the DIE it was found under", "entry (|D| D child (root != D root))"),
    ("a DIE equals itself and its copy", "entry (|D| (D (!= D), [D] elem (!= D), D (offset != D offset), D (label != D label)))"),
]
LAWS_RAW = [(n, "raw " + q if q.startswith("entry") or q.startswith("unit") else q.replace("(|Dw| ", "(|Dw| ").replace("Dw unit", "Dw raw unit").replace("Dw entry", "Dw raw entry"))
            for n, q in LAWS]


def nav_table(b, rec):
    """driver record of Q_NAV -> list of (die, kids, parent, root, isroot, unit offset)."""
    rows = []
    for x in rec["results"]:
        g = x[-1]["v"]
        rows.append((D.die_id(b, g[0]), [D.die_id(b, k) for k in g[1]["v"]], [D.die_id(b, k) for k in g[2]["v"]],
                     [D.die_id(b, k) for k in g[3]["v"]], len(g[4]["v"]) == 1, [D.cst(u) for u in g[5]["v"]]))
    return rows


def cj(v):
    return (v["d"], tuple(v["ch"]))


def run(tier):
    vd = common.Verdict(PID, tier)
    wd = common.scratch(PID)
    bdir = common.build("plain")
    drv = os.path.join(bdir, "bin", "zwdrv")
    # forests: cooked navigation over imports of partial units (nav); the same with the partial units in a dwz alt
    # file, where offsets of the two files collide (altnav); imported units that are ordinary compile units (navcu,
    # DWARF 4, 3.1.2 allows both kinds); imports that lead back -- a unit importing itself, two units importing
    # each other: nothing may hang, a unit is not inlined into itself (navcyc); import chains ten units deep
    # (navchain; the model is exponential in the depth).  Three generations at a time, eight TLC shards each.
    specs = [("nav", n, 8) for n in ((4, 5, 6) if tier == "quick" else (4, 5, 6, 7))] \
          + [("altnav", n, 8) for n in ((4, 5) if tier == "quick" else (4, 5, 6))] \
          + [("navcu", n, 8) for n in (4, 5)] \
          + [("navcyc", n, 8) for n in ((3, 4) if tier == "quick" else (3, 4, 5))] \
          + [("navchain", 20, 1)]
    specs.sort(key=lambda x: -x[1] if x[0] != "navchain" else -99)          # the long ones first
    allv = []
    for vs in common.parallel(lambda x: D.gen_forests(x[0], x[1], wd, shards=x[2]), specs, workers=3):
        allv += vs
    badm = [v for v in allv if not v["ok"]["nav"]]
    if badm:
        vd.observe("model:die_it_producer / fetch_parent break a navigation law", {"forest": badm[0]["forest"]})
    vd.cov["states"] = len(allv); vd.cov["transitions"] = sum(len(v["cooked_entries"]) for v in allv)
    built = D.build_all(allv, wd, "nav")
    jobs = []
    for v, b in zip(allv, built):
        jobs.append((b.path, Q_NAV, False)); jobs.append((b.path, Q_NAV_RAW, False))
        for n_, q in LAWS: jobs.append((b.path, q, False))
    recs = D.run_queries(drv, jobs, wd, "nav")
    per = 2 + len(LAWS)
    nok = 0
    for i, (v, b) in enumerate(zip(allv, built)):
        vd.cov["evaluations"] += 1
        F = v["forest"]
        nimp = sum(1 for d in F["die"] if d["tag"] == "imp")
        nested = any(d["tag"] == "imp" and F["die"][v["raw_parent"][k] - 1]["tag"] not in ("cu", "pu") for k, d in enumerate(F["die"]))
        key = "generated forest (%d units, %d imports%s%s):" % (len(F["units"]), nimp, ", import below a non-root DIE" if nested else "",
                                                                 ", partial units in the alt file" if any(u.get("file") for u in F["units"]) else "")
        r = recs[per * i: per * (i + 1)]
        if not r[0] or r[0].get("status") != "ok":
            vd.observe(key + " cooked navigation query failed", {"observed": r[0], "file": b.path}); continue
        rows = nav_table(b, r[0])
        exp = [cj(e) for e in v["cooked_entries"]]
        ok = True
        if [x[0] for x in rows] != exp:
            vd.observe(key + " cooked entry listing", {"expected": exp, "observed": [x[0] for x in rows], "file": b.path}); ok = False
        else:
            for k, row in enumerate(rows):
                ek = [cj(x) for x in v["cooked_kids"][k]]
                ep = [cj(x) for x in v["cooked_parent"][k]]
                er = cj(v["cooked_root"][k])
                why = None
                # `==' of DIEs ignores how a DIE without import route relates to one with a route, and the property
                # speaks in terms of `==': children / parent / root are compared by DIE identity
                ids = lambda l: [x[0] for x in l]
                if ids(row[1]) != ids(ek): why = "children"
                # the children carry the import chain of the DIE they were found under (and what they add to it)
                elif row[1] != [tuple(x) if not isinstance(x, tuple) else x for x in ek]: why = "children (import chains)"
                elif ids(row[2]) != ids(ep): why = "parent"
                elif ids(row[3]) != [er[0]]: why = "root"
                elif row[4] != (len(ep) == 0): why = "?root"
                else:
                    # `unit' of a DIE is the unit whose raw `entry' lists it -- for a DIE that is seen through an
                    # import, the imported unit, not the one `root' leads to
                    ui = [j for j, ds in enumerate(v["unit_dies"]) if row[0][0] in ds]
                    if len(ui) != 1 or row[5] != [b.unit_off[ui[0]]]:
                        why = "unit (expected the unit at %s)" % [hex(b.unit_off[j]) for j in ui]
                if why:
                    vd.observe(key + " " + why, {"die": row[0], "expected": {"kids": ek, "parent": ep, "root": er},
                                                 "observed": {"kids": row[1], "parent": row[2], "root": row[3], "isroot": row[4], "unit": row[5]},
                                                 "file": b.path})
                    ok = False; break
        # raw mode: plain tree
        if r[1] and r[1].get("status") == "ok":
            rrows = nav_table(b, r[1])
            for row in rrows:
                d = row[0][0]
                ep = v["raw_parent"][d - 1]
                if row[1] != [(k, ()) for k in F["die"][d - 1]["kids"]] or row[2] != ([(ep, ())] if ep else []):
                    vd.observe(key + " raw navigation", {"die": d, "observed": row, "file": b.path}); ok = False; break
        for (name, q), rr in zip(LAWS, r[2:]):
            if not rr or rr.get("status") != "ok" or len(rr["results"]) != 0 or rr.get("soft", 0):
                vd.observe(key + " law `%s'" % name, {"query": q, "observed": rr, "file": b.path}); ok = False
        nok += 1 if ok else 0
    vd.cov["distinct_nontrivial"] = nok
    vd.cov["traces_validated_against_impl"] = nok
    # the laws on the repository's samples (incl. dwz partial units and alt files)
    tests = os.path.join(common.REPO, "tests")
    samples = [os.path.join(tests, x) for x in ("twocus", "a1.out", "dwz-partial", "dwz-partial2-1", "dwz-partial3-1", "dwz-partial4-1.o",
               "dwz-dupfile", "nontrivial-types.o", "typedef.o", "enum.o", "char_16_32.o", "nullptr.o", "defaulted.o")]
    jobs = [(s, q, False) for s in samples for n_, q in LAWS]
    srecs = D.run_queries(drv, jobs, wd, "samples")
    k = 0
    for s in samples:
        for name, q in LAWS:
            rr = srecs[k]; k += 1
            vd.cov["evaluations"] += 1
            if not rr or rr.get("status") != "ok" or len(rr["results"]) != 0 or rr.get("soft", 0):
                vd.observe("sample %s: law `%s'" % (os.path.basename(s), name), {"query": q, "observed": rr})
    vd.sample({"forest": allv[len(allv) // 3]["forest"], "cooked_entries": allv[len(allv) // 3]["cooked_entries"]})
    return vd.finish(rule="tla/Forests.tla family nav: every parent vector over 4..%d DIEs with 2-3 units (one compile unit, partial "
                     "units), every placement of 1-3 imported_unit DIEs pointing to later units (child of a root, nested in a "
                     "namespace, inside a partial unit, a unit imported twice); tla/Dwarf.tla checks die_it_producer = imports "
                     "inlined in place and that fetch_parent / root agree with it; per forest the full table (DIE, import route) -> "
                     "children, parent, root, ?root in cooked and raw mode is compared with the model and %d zero-result law queries "
                     "are run; the laws also on 13 sample files; non-trivial = forests whose tables all matched"
                     % (6 if tier == "quick" else 7, len(LAWS)), exhaustive=True)

def replay(path):
    print(open(path).read())
    return 0
