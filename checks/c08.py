"""C08: integer arithmetic is exact over [-2^63, 2^64-1] or reports an error."""
import os, sys, json, subprocess, random, shutil, time
import common, tlc, zw

PID = "C08"
M64 = 2**64
H63 = 2**63
INV = ["InvAdd", "InvSub", "InvMul", "InvDiv", "InvMod", "InvNeg", "InvLess"]
OPS = ["add", "sub", "mul", "div", "mod"]


def val(u, s):
    return u - M64 if s and u >= H63 else u


def exact(op, a, b):
    """The meaning: exact result or None for an error."""
    if op == "add": v = a + b
    elif op == "sub": v = a - b
    elif op == "mul": v = a * b
    elif op == "neg": v = -a
    elif op in ("div", "mod"):
        if b == 0:
            return None
        v = a // b if op == "div" else a - b * (a // b)      # python: floor division
    if -H63 <= v <= M64 - 1:
        return v
    return None


def div_known_family(a, b):
    return b != 0 and ((a < 0) != (b < 0)) and abs(a) + abs(b) - 1 > M64 - 1


def lattice(rng, nrand):
    vals = {0, 1, 2, M64 - 1, M64 - 2, H63, H63 - 1, H63 + 1, H63 - 2, H63 + 2}
    for k in range(1, 64):
        for d in (-1, 0, 1):
            vals.add((2**k + d) % M64)
            vals.add((M64 - 2**k + d) % M64)      # the negatives -2^k+d as bit patterns
    for _ in range(nrand):
        vals.add(rng.getrandbits(64))
        vals.add(rng.getrandbits(rng.randrange(1, 64)))
    nums = []
    for u in sorted(vals):
        nums.append((u, 0))
        nums.append((u, 1))
    return nums


def apalache(module_dir, module, inv, timeout, cinit="CInit"):
    t0 = time.time()
    try:
        pr = subprocess.run(["apalache-mc", "check", "--cinit=" + cinit, "--length=0", "--inv=" + inv,
                             "--out-dir=" + os.path.join(module_dir, "_out"), module],
                            cwd=module_dir, stdout=subprocess.PIPE, stderr=subprocess.STDOUT,
                            timeout=timeout)
        out = pr.stdout.decode("utf-8", "replace")
    except subprocess.TimeoutExpired as e:
        return "timeout", time.time() - t0, (e.stdout or b"").decode("utf-8", "replace")
    if "The outcome is: NoError" in out:
        return "ok", time.time() - t0, out
    if "The outcome is: Error" in out or "violat" in out:
        return "violated", time.time() - t0, out
    return "error", time.time() - t0, out


def tla_num(u, s):
    return "[u |-> %d, sg |-> %s]" % (u, "TRUE" if s else "FALSE")


def run(tier):
    vd = common.Verdict(PID, tier)
    wd = common.scratch(PID)
    bdir = common.build("plain")
    rng = random.Random(common.seed())
    # 1. TLC: the transcription of int.cc vs exact arithmetic, all operands, small words
    widths = (3, 4, 5) if tier == "quick" else (3, 4, 5, 6, 7)
    for W in widths:
        r = tlc.run_tlc("MCInt", constants={"TwoW": 2**W, "HalfW": 2**(W - 1), "PinnedNeg": False,
                                            "PinnedMod": False},
                        init="Init", nxt="Next", invariants=INV, workers=8, timeout=1200)
        if r.violated:
            vd.observe("model:W=%d:%s" % (W, r.violated), {"output": r.out[-4000:]})
        elif not r.ok:
            raise common.ToolError("TLC MCInt failed\n" + r.out[-2000:])
        vd.add_states(r)
    # 2. Apalache: the same module at W = 64, symbolically over the full range
    adir = os.path.join(wd, "apalache")
    os.makedirs(adir)
    shutil.copy(os.path.join(common.VERIF, "tla", "Int.tla"), adir)
    shutil.copy(os.path.join(common.VERIF, "tla", "apalache", "Int64.tla"), adir)
    obligations = ["InvAdd", "InvSub", "InvNeg", "InvLess", "InvMul"]
    if tier == "thorough":
        obligations += ["InvDiv", "InvMod"]
    apa = {}
    def one(inv):
        d = os.path.join(adir, inv)
        os.makedirs(d)
        shutil.copy(os.path.join(adir, "Int.tla"), d)
        shutil.copy(os.path.join(adir, "Int64.tla"), d)
        return inv, apalache(d, "Int64.tla", inv, 300 if inv in ("InvDiv", "InvMod") else 240)
    for inv, (st, wall, out) in common.parallel(one, obligations, workers=4):
        apa[inv] = {"status": st, "wall_s": round(wall, 1)}
        if st == "violated":
            vd.observe("apalache:" + inv, {"output": out[-4000:]})
        elif st == "error":
            raise common.ToolError("apalache failed on %s\n%s" % (inv, out[-2000:]))
    # 3. replay: boundary lattice + random values, both representations, through int.cc
    nums = lattice(rng, 20 if tier == "quick" else 120)
    pick = nums if tier == "thorough" else nums
    cmds, meta = [], []
    # all pairs would be ~160k per op in quick: sample the second operand
    # ... but always keep the core boundary values in both representations (zero, +-1, +-2, 2^63 and its
    # neighbours, 2^64-1): a signed zero against INT64_MIN is the kind of pair a stride would drop
    core = {0, 1, 2, M64 - 1, M64 - 2, H63, H63 - 1, H63 + 1, H63 - 2, H63 + 2}
    seconds = pick if tier == "thorough" else sorted(set([pick[i] for i in range(0, len(pick), 7)] + [x for x in pick if x[0] in core]))
    for op in OPS + ["lt"]:
        for (ua, sa) in pick:
            for (ub, sb) in seconds:
                cmds.append("%s\t%d\t%d\t%d\t%d" % (op, ua, sa, ub, sb))
                meta.append((op, ua, sa, ub, sb))
    for (ua, sa) in pick:
        cmds.append("neg\t%d\t%d\t0\t0" % (ua, sa))
        meta.append(("neg", ua, sa, 0, 0))
    cf = os.path.join(wd, "int.txt")
    open(cf, "w").write("\n".join(cmds) + "\n")
    pr = subprocess.run([os.path.join(bdir, "bin", "intdrv"), cf], stdout=subprocess.PIPE,
                        stderr=subprocess.PIPE, timeout=1800)
    lines = pr.stdout.decode().splitlines()
    if pr.returncode != 0 or len(lines) != len(cmds):
        vd.observe("intdrv crash", {"rc": pr.returncode, "stderr": pr.stderr.decode()[-2000:],
                                    "after": cmds[len(lines)] if len(lines) < len(cmds) else None})
        lines = lines + ["crash\t"] * (len(cmds) - len(lines))
    trace_events = []
    nontriv = 0
    for (op, ua, sa, ub, sb), line in zip(meta, lines):
        vd.cov["evaluations"] += 1
        a, b = val(ua, sa), val(ub, sb)
        f = line.split("\t")
        if op == "lt":
            if f[0] != "ok" or (f[1] == "1") != (a < b):
                vd.observe("int %d lt %d" % (a, b), {"a": [ua, sa], "b": [ub, sb], "observed": line})
            continue
        e = exact(op, a, b)
        if f[0] == "ok":
            ru, rs = int(f[1]), int(f[2])
            got = val(ru, rs)
            if len(trace_events) < 4000 and rng.random() < 0.02:
                trace_events.append((op, ua, sa, ub, sb, True, ru, rs))
        else:
            got = None
            if f[0] == "err" and len(trace_events) < 4000 and rng.random() < 0.02:
                trace_events.append((op, ua, sa, ub, sb, False, 0, 0))
        if e is not None and (abs(a) > 2**31 or abs(b) > 2**31):
            nontriv += 1
        if got != e:
            if op == "div" and e is not None and got is None and div_known_family(a, b):
                key = "int div known-family"
            else:
                key = "int %d %s %d" % (a, op, b)
            vd.observe(key, {"op": op, "a": a, "b": b, "repr_a": [ua, sa], "repr_b": [ub, sb],
                             "expected": e, "observed": line})
    vd.cov["distinct_nontrivial"] += nontriv
    vd.sample({"op": meta[7][0], "a": meta[7][1:3], "b": meta[7][3:5], "observed": lines[7]})
    # 4. code -> spec at full width: recorded calls validated against Int.tla by Apalache
    batches = [trace_events[i:i + 40] for i in range(0, min(len(trace_events), 160 if tier == "quick" else 1200), 40)]
    def check_batch(ib):
        i, batch = ib
        d = os.path.join(adir, "trace%d" % i)
        os.makedirs(d)
        shutil.copy(os.path.join(adir, "Int.tla"), d)
        evs = ",\n  ".join("[op |-> \"%s\", a |-> %s, b |-> %s, ok |-> %s, r |-> %s]"
                           % (op, tla_num(ua, sa), tla_num(ub, sb), "TRUE" if ok else "FALSE", tla_num(ru, rs))
                           for (op, ua, sa, ub, sb, ok, ru, rs) in batch)
        src = open(os.path.join(common.VERIF, "tla", "apalache", "IntTrace.tla.in")).read()
        open(os.path.join(d, "IntTrace.tla"), "w").write(src.replace("@@EVENTS@@", evs))
        return apalache(d, "IntTrace.tla", "TraceOK", 300)
    validated = 0
    for (st, wall, out), batch in zip(common.parallel(check_batch, list(enumerate(batches)), workers=4), batches):
        if st == "ok":
            validated += len(batch)
        elif st == "violated":
            vd.drift.append("a recorded int.cc call is not a behaviour of Int.tla (batch of %d)" % len(batch))
        elif st == "timeout":
            vd.notes.setdefault("trace_timeouts", 0)
            vd.notes["trace_timeouts"] += 1
        else:
            raise common.ToolError("apalache trace validation failed\n" + out[-2000:])
    vd.cov["traces_validated_against_impl"] = validated
    # 5. the same through the language: literals, `A B op`, error path of the arithmetic words
    zcmds, zmeta = [], []
    def lit(u, s):
        v = val(u, s)
        return str(v)
    sample = [pick[i] for i in range(0, len(pick), 7)]
    for op in OPS:
        for (ua, sa) in sample:
            for (ub, sb) in sample[::3]:
                a, b = val(ua, sa), val(ub, sb)
                q = "%s %s %s" % (a, b, op)
                zcmds.append("\t".join(["run", str(len(zcmds)), "max=10", zw.hexq(q)]))
                zmeta.append((op, a, b, q))
    res = zw.run_driver(os.path.join(bdir, "bin", "zwdrv"), zcmds, wd, tag="intq")
    byid = {r.get("id"): r for r in res}
    for i, (op, a, b, q) in enumerate(zmeta):
        r = byid.get(str(i))
        vd.cov["evaluations"] += 1
        e = exact(op, a, b)
        got = None
        if r and r.get("status") == "ok" and len(r["results"]) == 1:
            got = int(r["results"][0][-1]["v"])
        elif r and r.get("status") == "ok" and len(r["results"]) == 0 and r.get("soft", 0) >= 1:
            got = None
        else:
            got = "bad"
        if got != e:
            if op == "div" and e is not None and got is None and div_known_family(a, b):
                key = "int div known-family"
            else:
                key = "query `%s'" % q
            vd.observe(key, {"query": q, "expected": e, "observed": r})
    # 6. literals: every text of an integer in the four notations around the edges of the representable range
    #    (2^63, 2^64, one more digit, many more digits), positive and negative, alone, under arithmetic and as the
    #    number of ?N / !N: the number written, or a reported failure -- never another number
    lcmds, lmeta = [], []
    edges = set()
    for c in (2**63, 2**64, 10**19, 10**20, 2 * 2**64, 16 * 2**64, 8 * 2**64, 10 * 2**64):
        for d in range(-12, 13):
            edges.add(c + d)
    for k in (65, 66, 70, 96, 127, 128, 130):
        edges.update({2**k - 1, 2**k, 2**k + 1, 2**k + 2**64, 2**k + 2**64 + 1})
    for ext in (0, 5, 9):          # the digits of 2^64 + d with one more digit appended
        for d in range(0, 8):
            edges.add((2**64 + d) * 10 + ext)
    def spell(v, base):
        a = abs(v)
        t = {10: "%d" % a, 16: "0x%x" % a, 8: "0%o" % a if a else "0", 2: "0b" + bin(a)[2:]}[base]
        return ("-" if v < 0 else "") + t
    for v in sorted(edges):
        for sign in (1, -1):
            for base in (10, 16, 8, 2):
                t = spell(sign * v, base)
                lcmds.append("\t".join(["run", str(len(lcmds)), "max=5", zw.hexq(t)])); lmeta.append((sign * v, t, "alone"))
                if base == 10:
                    lcmds.append("\t".join(["run", str(len(lcmds)), "max=5", zw.hexq(t + " 1 add")])); lmeta.append((sign * v + 1, t + " 1 add", "add"))
        t = spell(v, 10)
        lcmds.append("\t".join(["run", str(len(lcmds)), "max=5", zw.hexq("[7, 8] elem ?" + t)])); lmeta.append((v, "[7, 8] elem ?" + t, "numword"))
    lby = {r.get("id"): r for r in zw.run_driver(os.path.join(bdir, "bin", "zwdrv"), lcmds, wd, tag="intlit")}
    for i, (v, t, kind) in enumerate(lmeta):
        vd.cov["evaluations"] += 1
        r = lby.get(str(i)) or {}
        st = r.get("status")
        if kind == "numword":
            # position numbers are small: a huge one is rejected or matches nothing; it must not match position 0 or 1
            if st == "ok" and r["results"]:
                vd.observe("literal `%s' as a position assertion matches" % t, {"observed": r})
            elif st not in ("ok", "parse_error", "runtime_error"):
                vd.observe("literal `%s': %s" % (t, st), {"observed": r})
            continue
        if st == "ok" and len(r["results"]) == 1 and r["results"][0][-1]["t"] == "cst":
            if int(r["results"][0][-1]["v"]) != v:
                vd.observe("literal `%s' reads as %s" % (t, r["results"][0][-1]["v"]), {"expected": v, "observed": r})
            elif not (-2**63 <= v < 2**64):
                vd.observe("literal `%s' is accepted although it cannot be represented" % t, {"observed": r})
        elif st in ("parse_error", "runtime_error") or (st == "ok" and not r["results"] and r.get("soft", 0) >= 1):
            if -2**63 <= v < 2**64 and kind == "alone":
                vd.observe("literal `%s' is representable but rejected" % t, {"observed": r})
        else:
            vd.observe("literal `%s': neither the number nor a reported failure" % t, {"observed": r})
    return vd.finish(rule="(1) TLC: Int.tla (transcription of int.cc) vs exact arithmetic for all operand pairs in both "
                     "representations at W in %s; (2) Apalache: the same module at W=64 over the full range, one "
                     "obligation per operator; (3) boundary lattice (0, +-1, +-2, 2^k, 2^k+-1, INT64_MIN/MAX, "
                     "UINT64_MAX and neighbours, random values) x both representations through int.cc, oracle exact "
                     "arithmetic; (4) sampled recorded calls validated against Int.tla at full width by Apalache; "
                     "(5) `A B op` queries; (6) integer literals in four notations around 2^63, 2^64, 10^19, 10^20, 2^65..2^130 and with "
                     "further digits appended, both signs, alone, under `1 add' and as ?N: the number written or a reported failure; "
                     "non-trivial = exact result exists and an operand exceeds 2^31"
                     % (list(widths),),
                     extra={"apalache_obligations": apa, "obligations": len(apa),
                            "discharged": sum(1 for v in apa.values() if v["status"] == "ok")})

def replay(path):
    print(open(path).read())
    return 0
