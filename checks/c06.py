"""C06: cooked view = raw view with imports inlined and inherited attributes integrated."""
import os, sys, json, binascii
import common, tlc, zw, dwarfchk as D

PID = "C06"
Q_ATTR = "entry (|D| [D, [D attribute [label value, [value]]], [D raw attribute label value]])"
ATS = ["name", "decl_line", "type", "external", "sibling", "declaration", "specification", "abstract_origin"]
LAWS = []
for a in ATS:
    LAWS.append(("@AT_%s = attribute ?AT_%s value" % (a, a), "entry (|D| [D @AT_%s] != [D attribute ?AT_%s value])" % (a, a)))
    LAWS.append(("?AT_%s iff attribute ?AT_%s yields" % (a, a),
                 "entry (?AT_%s !(attribute ?AT_%s), !AT_%s ?(attribute ?AT_%s))" % (a, a, a, a)))
    LAWS.append(("@AT_%s = @DW_AT_%s" % (a, a), "entry (|D| [D @AT_%s] != [D @DW_AT_%s])" % (a, a)))
LAWS.append(("name = @AT_name", "entry (|D| [D name] != [D @AT_name])"))
for t in ["subprogram", "compile_unit", "variable", "namespace", "imported_unit", "partial_unit"]:
    LAWS.append(("?TAG_%s iff label == DW_TAG_%s" % (t, t),
                 "entry (?TAG_%s !(label == DW_TAG_%s), !TAG_%s (label == DW_TAG_%s))" % (t, t, t, t)))
for f in ["string", "data1", "ref4", "flag_present", "udata", "ref_addr"]:
    LAWS.append(("?FORM_%s iff form == DW_FORM_%s" % (f, f),
                 "entry attribute (?FORM_%s !(form == DW_FORM_%s), !FORM_%s (form == DW_FORM_%s))" % (f, f, f, f)))
LAWS.append(("cooked unit skips partial units", "unit root ?TAG_partial_unit"))
LAWS.append(("cooked children never show imported_unit with a valid import", "entry child ?TAG_imported_unit ?AT_import"))
LAWS.append(("cooked attribute never yields a name twice", "entry (|D| [D attribute label] (|L| L elem (|A| [L elem (== A)] length (> 1))))"))
LAWS.append(("integrated attributes never include sibling / declaration",
             "entry (|D| D attribute (?AT_sibling, ?AT_declaration) !(label == D raw attribute label))"))


def context_chains(vd, drv, wd):
    """An integrated attribute is read in the context of the DIE that holds it (Dwarf!FindCtx): DW_AT_const_value
    in DW_FORM_data1 with all bits set is -1 or 255 by the type of its holder.  Chains of 0 to 4 references
    (specification / abstract_origin alternating, either one first), the starting DIE and every DIE on the way
    with a type of the other signedness than the holder's."""
    sys.path.insert(0, os.path.join(common.VERIF, "gen"))
    import dwarfgen
    A = lambda n, f, v=None: {"name": n, "form": f, "value": v}
    def die(i, tag, attrs, kids=()):
        return {"id": i, "tag": tag, "children": list(kids), "attrs": attrs}
    kids = [die(2, 0x24, [A(3, "string", "s8"), A(0x0b, "data1", 1), A(0x3e, "data1", 6)]),
            die(3, 0x24, [A(3, "string", "u8"), A(0x0b, "data1", 1), A(0x3e, "data1", 8)])]
    plan = {}
    nid = 100
    for holder_signed in (True, False):
        for depth in range(0, 5):
            for first in (0x31, 0x47):            # abstract_origin, specification
                ids = [nid + k for k in range(depth + 1)]
                nid += depth + 1
                # ids[0] starts the chain, ids[-1] holds the attribute
                for k, i in enumerate(ids):
                    at = []
                    if k < depth:
                        at.append(A((first, 0x47 if first == 0x31 else 0x31)[k % 2], "ref4", ids[k + 1]))
                        at.append(A(0x49, "ref4", 3 if holder_signed else 2))           # a type of its own, the other one
                    else:
                        at += [A(3, "string", "h%d" % i), A(0x49, "ref4", 2 if holder_signed else 3), A(0x1c, "data1", 0xff)]
                    kids.append(die(i, 0x34, at))
                plan[ids[0]] = (-1 if holder_signed else 255, depth, first)
    o, offs, _ = dwarfgen.build({"units": [{"kind": "cu", "version": 4, "table": 0, "root": die(1, 0x11, [A(3, "string", "ctx.c")], kids)}]}, wd, "ctxchain")
    b = D.Built(o, offs)
    jobs = [(o, "entry (offset == %d) [[@AT_const_value], [attribute ?AT_const_value value], [attribute ?AT_const_value cooked value]]" % b.off[i], False)
            for i in sorted(plan)]
    for i, rec in zip(sorted(plan), D.run_queries(drv, jobs, wd, "ctxchain")):
        want, depth, first = plan[i]
        vd.cov["evaluations"] += 1
        key = "const_value found %d reference(s) away (first DW_AT_%s), its holder's type is %s" % (
            depth, "abstract_origin" if first == 0x31 else "specification", "signed" if want < 0 else "unsigned")
        if not rec or rec.get("status") != "ok" or len(rec["results"]) != 1:
            vd.observe(key + ": query failed", {"observed": rec}); continue
        got = [[int(x["v"]) for x in g["v"] if x["t"] == "cst"] for g in rec["results"][0][-1]["v"]]
        if got != [[want], [want], [want]]:
            vd.observe(key + ": @AT_const_value %s, attribute ... value %s, expected %d" % (got[0], got[1], want), {"observed": got})


def run(tier):
    vd = common.Verdict(PID, tier)
    wd = common.scratch(PID)
    bdir = common.build("plain")
    drv = os.path.join(bdir, "bin", "zwdrv")
    allv = []
    import random
    rng = random.Random(common.seed())
    for n in (3, 4):
        allv += D.gen_forests("attr", n, wd)
    total_attr = len(allv)
    # the same chains running from the compile unit into a partial unit of a dwz alt file (DW_FORM_GNU_ref_alt);
    # the DIEs of the two files sit at the same offsets
    altv = []
    for n in (5,):            # (six DIEs: tens of thousands of forests, more than 20 minutes of generation)
        altv += D.gen_forests("altattr", n, wd)
    total_alt = len(altv)
    if tier == "quick" and len(altv) > 400:
        altv = rng.sample(altv, 400)
    if tier == "quick" and len(allv) > 500:
        # the model flags every forest on which the mechanism would break a law; replay a seeded sample and
        # all forests with both references on one DIE
        both = [v for v in allv if any(sum(1 for a in d["attrs"] if a["n"] in ("spec", "orig")) == 2 for d in v["forest"]["die"])]
        rest = [v for v in allv if v not in both]
        allv = rng.sample(both, min(350, len(both))) + rng.sample(rest, min(250, len(rest)))
    allv += altv
    # malformed but plausible: references that lead back to a DIE already visited (the DIE itself, an earlier
    # one): `attribute', @AT_x, ?AT_x and name must terminate and integrate what is reachable, once
    # chains of any length: 20 and 40 hops
    allv += D.gen_forests("chain", 22, wd, shards=1) + D.gen_forests("chain", 42, wd, shards=1)
    cycv = D.gen_forests("cyc", 3, wd)
    total_cyc = len(cycv)
    allv += cycv if tier == "thorough" else rng.sample(cycv, min(300, len(cycv)))
    navv = []
    for n in ((4, 5) if tier == "quick" else (4, 5, 6)):
        navv += D.gen_forests("nav", n, wd)
    for n in ((4, 5) if tier == "quick" else (4, 5, 6)):
        navv += D.gen_forests("altnav", n, wd)
    for n in (4, 5):
        navv += D.gen_forests("navcu", n, wd)       # imported units that are ordinary compile units
    # self-test of the model: with the reading context of the pinned find_attribute (chains of two or more
    # references read in the context of the DIE they started from) AttrOK fails
    pv = D.gen_forests("chain", 6, wd, shards=1, pinned={"PinnedCtx": True})
    if all(v["ok"]["attr"] for v in pv):
        raise common.ToolError("Dwarf.tla: PinnedCtx is not caught by AttrOK")
    context_chains(vd, drv, wd)
    badm = [v for v in allv if not v["ok"]["attr"]]
    if badm:
        vd.observe("model:find_attribute and attribute_producer disagree", {"forest": badm[0]["forest"]})
    vd.cov["states"] = len(allv) + len(navv)
    vd.cov["transitions"] = sum(len(v["forest"]["die"]) for v in allv + navv)
    built = D.build_all(allv, wd, "attr")
    jobs = []
    for v, b in zip(allv, built):
        jobs.append((b.path, Q_ATTR, False))
        for n_, q in LAWS: jobs.append((b.path, q, False))
    recs = D.run_queries(drv, jobs, wd, "attr")
    per = 1 + len(LAWS)
    nok = 0
    for i, (v, b) in enumerate(zip(allv, built)):
        vd.cov["evaluations"] += 1
        F = v["forest"]
        both = any(sum(1 for a in d["attrs"] if a["n"] in ("spec", "orig")) == 2 for d in F["die"])
        order = ""
        cyc = any(a["n"] in ("spec", "orig") and a["r"] and a["r"] <= k + 1 for k, d in enumerate(F["die"]) for a in d["attrs"])
        if both:
            d0 = [d for d in F["die"] if sum(1 for a in d["attrs"] if a["n"] in ("spec", "orig")) == 2][0]
            order = ", both references on one DIE (%s stored first)" % [a["n"] for a in d0["attrs"] if a["n"] in ("spec", "orig")][0]
        key = "generated forest (%d DIEs%s%s):" % (len(F["die"]), order, ", a reference leads back" if cyc else "")
        r = recs[per * i: per * (i + 1)]
        ok = True
        if not r[0] or r[0].get("status") != "ok":
            vd.observe(key + " attribute query failed", {"observed": r[0], "file": b.path}); continue
        for x in r[0]["results"]:
            g = x[-1]["v"]
            d = D.ident(b, g[0])
            got = []
            for a in g[1]["v"]:
                nm = D.cst(a["v"][0])
                vals = a["v"][1]["v"]
                of = None
                if nm == D.ATN["name"] and vals and vals[0]["t"] == "str":
                    of = int(binascii.unhexlify(vals[0]["hex"]).decode()[1:])
                elif nm == D.ATN["line"] and vals and vals[0]["t"] == "cst":
                    of = int(vals[0]["v"])
                got.append((nm, of))
            exp = [(D.ATN[a["n"]], a["of"] if a["n"] in ("name", "line") else None) for a in v["cooked_attrs"][d - 1]]
            rawgot = [D.cst(a) for a in g[2]["v"]]
            rawexp = [D.ATN[a["n"]] for a in F["die"][d - 1]["attrs"]]
            if rawgot != rawexp:
                vd.observe(key + " raw attributes", {"die": d, "expected": rawexp, "observed": rawgot, "file": b.path}); ok = False; break
            gn, en = [n for n, o in got], [n for n, o in exp]
            # the property fixes WHICH names are yielded (own ones first, no name twice, never an inherited sibling /
            # declaration); the order among integrated attributes and the tie between two referenced DIEs that both
            # have a name is settled by the law queries (@AT_x = attribute ?AT_x value) -- a difference there alone
            # is a drift of the mechanism model, not a violation
            if sorted(gn) != sorted(en) or gn[:len(rawexp)] != rawexp or len(set(gn)) != len(gn):
                vd.observe(key + " cooked attribute names", {"die": d, "expected": exp, "observed": got, "file": b.path}); ok = False; break
            if got != exp:
                vd.drift.append("integrated attributes of DIE %d in %s come in another order / from another DIE than the model says" % (d, b.path))
        for (name, q), rr in zip(LAWS, r[1:]):
            if not rr or rr.get("status") != "ok" or len(rr["results"]) != 0 or rr.get("soft", 0):
                vd.observe(key + " law `%s'" % name, {"query": q, "observed": rr, "file": b.path}); ok = False
        nok += 1 if ok else 0
    # imports: cooked children = raw children with imports replaced in place (model table by DIE identity), units
    nbuilt = D.build_all(navv, wd, "cnav")
    jobs = []
    for v, b in zip(navv, nbuilt):
        jobs.append((b.path, "entry (|D| [D, [D child]])", False))
        jobs.append((b.path, "unit root", False))
        for n_, q in LAWS[-4:-2]: jobs.append((b.path, q, False))
    nrecs = D.run_queries(drv, jobs, wd, "cnav")
    for i, (v, b) in enumerate(zip(navv, nbuilt)):
        vd.cov["evaluations"] += 1
        r = nrecs[4 * i: 4 * i + 4]
        key = "generated forest with imports:"
        if not r[0] or r[0].get("status") != "ok":
            vd.observe(key + " query failed", {"observed": r[0], "file": b.path}); continue
        got = [(D.ident(b, x[-1]["v"][0]), [D.ident(b, k) for k in x[-1]["v"][1]["v"]]) for x in r[0]["results"]]
        exp = [(e["d"], [k["d"] for k in ks]) for e, ks in zip(v["cooked_entries"], v["cooked_kids"])]
        if got != exp:
            vd.observe(key + " cooked children", {"expected": exp, "observed": got, "file": b.path})
        else:
            nok += 1
        gu = [D.ident(b, x[-1]) for x in (r[1] or {}).get("results", [])]
        eu = [v["forest"]["units"][u - 1]["root"] for u in v["cooked_units"]]
        if gu != eu:
            vd.observe(key + " cooked unit listing", {"expected": eu, "observed": gu, "file": b.path})
        for (name, q), rr in zip(LAWS[-4:-2], r[2:]):
            if not rr or rr.get("status") != "ok" or len(rr["results"]) != 0:
                vd.observe(key + " law `%s'" % name, {"query": q, "observed": rr, "file": b.path})
    vd.cov["distinct_nontrivial"] = nok
    vd.cov["traces_validated_against_impl"] = nok
    # laws on the samples (C++ and dwz)
    tests = os.path.join(common.REPO, "tests")
    samples = [os.path.join(tests, x) for x in ("nullptr.o", "defaulted.o", "enum.o", "char_16_32.o", "const_value_block.o", "dwz-partial",
               "dwz-partial2-1", "nontrivial-types.o", "attribute-die-cooked-no-dup.o", "imported-AT_decl_file.o", "a1.out", "twocus")]
    jobs = [(s, q, False) for s in samples for n_, q in LAWS]
    srecs = D.run_queries(drv, jobs, wd, "samples")
    k = 0
    for s in samples:
        for name, q in LAWS:
            rr = srecs[k]; k += 1
            vd.cov["evaluations"] += 1
            if not rr or rr.get("status") != "ok" or len(rr["results"]) != 0 or rr.get("soft", 0):
                vd.observe("sample %s: law `%s'" % (os.path.basename(s), name), {"query": q, "observed": rr})
    vd.sample({"forest": allv[len(allv) // 2]["forest"], "cooked_attrs": allv[len(allv) // 2]["cooked_attrs"]})
    return vd.finish(rule="tla/Forests.tla family attr: DIEs with specification / abstract_origin references to later DIEs (chains "
                     "up to %d hops, both references on one DIE in either stored order, attributes shadowed at an intermediate hop, "
                     "sibling / declaration present); tla/Dwarf.tla: attribute_producer = own + integrated attributes, agrees with "
                     "find_attribute; per forest the cooked and raw attribute lists (names, and the DIE an integrated name / line "
                     "comes from) are compared with the model (Dwarf!FindCtx: an integrated attribute is read in the context of the DIE that holds it -- const_value chains of depth 0..4 with a type of the other signedness on the way) and %d zero-result law queries run (@AT_x, ?AT_x, name, ?TAG_x, "
                     "?FORM_x, long vs short aliases); family nav: cooked children and unit listing vs the model; the laws on 12 "
                     "sample files" % (3 if tier == "quick" else 4, len(LAWS)), exhaustive=True)

def replay(path):
    print(open(path).read())
    return 0
