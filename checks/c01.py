"""C01: stream semantics of every construct."""
import os, sys, json
import common, engine, zw

PID = "C01"

def run(tier):
    vd = common.Verdict(PID, tier)
    wd = common.scratch(PID)
    bdir = common.build("plain")
    fams = [("altor", 3), ("subif", 3), ("fmt", 3), ("refeed", 3), ("closure", 3), ("scale", 1)] if tier == "quick" \
        else [("altor", 3), ("subif", 3), ("fmt", 3), ("refeed", 3), ("closure", 3), ("names", 3), ("scale", 1)]      # (refeed at weight 4: more than an hour of generation)
    total = 0
    # mechanism layer (tla/Engine.tla) refines the meaning layer, exhaustively
    mc = [("altor", 3), ("refeed", 2)] if tier == "quick" else [("altor", 3), ("subif", 3), ("fmt", 3), ("refeed", 3)]
    for fam, w in mc:
        r = engine.model_check(vd, fam, w)
        if r.violated:
            # the design (the model of the engine) breaks the property: report with TLC's trace
            vd.observe("model:" + fam + ":" + r.violated,
                       {"tlc_invariant": r.violated, "family": fam, "output": r.out[-6000:]})
        vd.notes.setdefault("model_checked", {})[fam] = {"weight": w, "states": r.distinct,
                                                         "transitions": r.states, "depth": r.depth}
    # non-vacuity of the model check: an op_merge that keeps its branch cursor across a drain breaks it
    import tlc
    nv = tlc.run_tlc("Engine", constants={"PinnedMerge": False, "EFamily": "refeed", "EMaxW": 2}, spec="Spec",
                     invariants=engine.ENGINE_INVARIANTS, workers=8, timeout=900, heap="8g", overrides={"MergeNoRewind": "Yes"})
    if not nv.violated:
        raise common.ToolError("Engine.tla: the MergeNoRewind mutant is not caught\n" + nv.out[-1500:])
    for fam, w in fams:
        vecs, st = engine.generate(fam, w, 16, wd, timeout=1500 if tier == "quick" else 3600)
        total += len(vecs)
        engine.replay(vd, vecs, bdir, wd, PID, check_illformed=False)
        vd.notes.setdefault("families", {})[fam] = dict(st, vectors=len(vecs), weight=w)
    return vd.finish(rule="programs enumerated by TLC (tla/Progs.tla) up to the stated weight per "
                     "family, each run on a two-stack stream, on a single stack and on two identical stacks (where the outermost "
                     "construct takes its inputs one at a time the answer must be the same sequence twice: nothing is "
                     "re-ordered because of a stack seen earlier); family 'refeed' has multi-yield chunks as leaves so that "
                     "sub-chains are fed several stacks at once, several times; expected "
                     "results from the meaning layer tla/Zw.tla (Den); non-trivial = distinct "
                     "program texts with >=1 expected result or diagnostic containing a stateful "
                     "construct", exhaustive=True, extra={"families": vd.notes.get("families"), "model_checked": vd.notes.get("model_checked")})

def replay(path):
    rep = json.load(open(path))["replay"]
    bdir = common.build("plain")
    wd = common.scratch(PID + "-replay")
    res = zw.run_driver(os.path.join(bdir, "bin", "zwdrv"),
                        ["\t".join(["run", "0", "max=2000", zw.hexq(rep["program"])])], wd)
    print(json.dumps(res, indent=1))
    return 0
