"""C13: no memory error, UB, leak or broken state lifecycle on any run."""
import os, sys, json, random, subprocess
import common, tlc, zw, engine

PID = "C13"

REJECTED = ["(", ")", "[", "let A := 1", "\"abc", "\"%( 1", "1 2 3 }", "?(", "if 1 then 2", "0x", "08", "1 foo bar",
            "let A := 1; let A := 2;", "A", "{|A| B}", "\"%( ) %)\"", "[|A A| 1]", "1 , , 2 ||", "@", "99999999999999999999999",
            "let := 1;", "(|A| ", "\"\\400\"", "1 /* never closed", "r\"", "\"a\"\\", "1 :", "?", "}{"]
RUNTIME_FAIL = ["drop", "1 drop drop", "(1, 2) swap", "1 (dup, drop drop)", "[1, 2] elem (?0 || drop drop)", "1 2 rot",
                "(1, 2, 3) (?1 drop drop ||)", "\"%( drop %)\"", "1 [drop drop]", "1 (drop drop)*", "let A := drop;", "over"]


# a failure (stack underflow throws) behind operators that hold state, in every sub-expression context: the state
# of the abandoned sub-chain has to be destroyed on the way out of the exception as well
FAIL_CORES = ["(1, 2) drop drop", "[3, 4] elem drop drop", "\"%( 1, 2 %)\" drop drop", "{drop drop} apply", "[1] elem* drop drop",
              "(1, 2) (3, 4) drop drop drop", "let A := (1, 2); A drop drop"]
FAIL_CONTEXTS = ["?(%s)", "!(%s)", "(%s == 7)", "(7 != %s)", "[%s]", "let X := %s;", "\"<%%( %s %%)>\"", "(%s)*", "(%s)+", "(%s || 9)",
                 "if ?(%s) then 1 else 2", "if 1 then (%s) else 2", "{%s} apply", "(%s, 5)", "?(?(%s))", "[?(%s)]", "1 (|A| %s)"]


def san_env():
    e = dict(os.environ)
    e["ASAN_OPTIONS"] = "detect_leaks=1:abort_on_error=0:exitcode=77:detect_stack_use_after_return=1"
    e["UBSAN_OPTIONS"] = "print_stacktrace=1:halt_on_error=1:exitcode=78"
    return e


def run(tier):
    vd = common.Verdict(PID, tier)
    wd = common.scratch(PID)
    rng = random.Random(common.seed())
    plain = common.build("plain")
    san = common.build("san")
    # 1. lifecycle discipline on the engine model: every program, every pull count, every
    #    abandonment point (Destroy is enabled in every state of tla/Engine.tla)
    for fam, w in ([("subif", 2), ("altor", 2), ("closure", 2), ("fmt", 2)] if tier == "quick"
                   else [("subif", 3), ("altor", 3), ("closure", 3), ("fmt", 3), ("names", 3)]):
        r = engine.model_check(vd, fam, w, invariants=["Lifecycle", "AllDeadAfterDestroy", "NeverOutOfFuel"])
        if r.violated:
            vd.observe("model:%s:%s" % (fam, r.violated), {"output": r.out[-4000:]})
    # the lifecycle automaton itself: the actions preserve non-overlap
    r = tlc.run_tlc("MCLifecycle", spec="LSpec", invariants=["NoOverlap"], workers=4, timeout=600)
    if r.violated or not r.ok:
        raise common.ToolError("MCLifecycle failed\n" + r.out[-2000:])
    vd.add_states(r)
    vd.lap("model")
    # 2. programs: a sample of every TLC family + rejected queries + run-time failures
    progs = []
    for fam, w in [("subif", 3), ("altor", 3), ("closure", 3), ("fmt", 3), ("names", 3), ("blocks", 4)]:
        vecs, st = engine.generate(fam, w, 16, wd, light=True)
        texts = [zw.unparse(v["ast"], "top") for v in vecs]
        n = 400 if tier == "quick" else 3000
        progs += rng.sample(texts, min(n, len(texts)))
    tests = os.path.join(common.REPO, "tests")
    dwq = [("entry ?root child name", "twocus"), ("entry attribute value", "typedef.o"), ("entry child* parent+ ?root", "dwz-partial"),
           ("symbol name", "y.o"), ("entry @AT_location elem value", "aranges.o"), ("abbrev entry attribute", "a1.out"),
           ("unit root child (|A| A A parent child ?eq)", "nontrivial-types.o"), ("entry if ?(child) then (child) else (parent)", "twocus"),
           ("entry (child, parent) [attribute label] length", "enum.o"), ("entry let A := name; \"%( A %)-%( offset %)\"", "typedef.o")]
    cmds, meta = [], []
    for p in progs:
        cmds.append("\t".join(["run", str(len(cmds)), "max=300,t=30", zw.hexq(p)])); meta.append(("prog", p))
    for p in REJECTED:
        cmds.append("\t".join(["run", str(len(cmds)), "max=300,t=30", zw.hexq(p)])); meta.append(("rejected", p))
    # query texts are bytes: every byte value where a token may start, after a token, inside a string, a raw
    # string, a comment and a splice (diagnostics quote the offending byte: formatting it must stay in bounds),
    # and random mutations of seed programs (deletions, insertions, swaps, NUL and high bytes)
    for b in range(256):
        pats = (b"%s", b"1 %s add", b"entry %s name", b"\"a%sb\"", b"r\"%s\"", b"# %s", b"\"%%( 1 %s %%)\"", b"1 /* %s */", b"0x%s", b"?%s")
        for pat in (pats if tier != "quick" else (pats[1], pats[3], pats[6], pats[b % 7 + (0 if b % 7 == 0 else 3)])):
            bs = pat.replace(b"%s", bytes([b])).replace(b"%%", b"%")
            cmds.append("\t".join(["run", str(len(cmds)), "max=50,t=30", zw.hexq(bs)])); meta.append(("bytes", bs.decode("utf-8", "backslashreplace")))
    seeds = [b'(1, 2) ((3, 4) || 5)', b'let A B := 1 2; [A, B] elem', b'"x%( 1 "y%s" %)z" length', b'if ?(1) then "a" else (2)?',
             b'[|A| A]* !(1 == 2)', b'{|X| X 1 add} apply', b'1 "%s %d %x %o %b" "\\x41\\101\\n\\""', b'r"raw\\" "\\ "cont"',
             b'(|A| A) /* c */ # d\n // e\n 2', b'[1, "a", [2]] elem (type == T_CONST) 1 add']
    for sd in seeds:
        for _ in range(25 if tier == "quick" else 400):
            m = bytearray(sd)
            for _ in range(rng.randrange(1, 4)):
                if not m:
                    break
                i = rng.randrange(len(m)); op = rng.randrange(4)
                if op == 0: del m[i]
                elif op == 1: m.insert(i, rng.choice(b'()[]{}"%\\|,;:*+?!@#/ \n\x00\xff\x80\xc3\xa9'))
                elif op == 2 and len(m) > 1:
                    j = rng.randrange(len(m)); m[i], m[j] = m[j], m[i]
                else: m[i] = rng.randrange(256)
            cmds.append("\t".join(["run", str(len(cmds)), "max=20,t=10", zw.hexq(bytes(m))])); meta.append(("mutation", bytes(m).decode("utf-8", "backslashreplace")))
    for p in RUNTIME_FAIL + [c % f for f in FAIL_CORES for c in FAIL_CONTEXTS]:
        cmds.append("\t".join(["run", str(len(cmds)), "max=300,t=30", zw.hexq(p)])); meta.append(("runtime", p))
    for p, f in dwq:
        cmds.append("\t".join(["run", str(len(cmds)), "max=300,t=60", zw.hexq(p), os.path.join(tests, f)])); meta.append(("dwarf", p))
    # address sets: every way one set of up to three ranges meets another under add / sub / overlap (inside a
    # range -- the set grows by one range and its storage moves --, at its ends, spanning ranges, in the holes)
    A_SETS = ["0 10 aset", "0 10 aset 20 30 aset add", "0 10 aset 20 30 aset add 40 50 aset add", "100 1 aset", "0 0 aset"]
    B_SETS = ["3", "3 4 aset", "0 3 aset", "7 10 aset", "23 26 aset", "5 25 aset", "10 20 aset", "12 15 aset", "0 50 aset", "45 60 aset",
              "0 5 aset 12 15 aset add", "3 4 aset 23 24 aset add 43 44 aset add", "60 70 aset"]
    for a_ in A_SETS:
        for b_ in B_SETS:
            for w_ in ("add", "sub", "overlap", "?overlaps", "?contains"):
                if b_ == "3" and w_ in ("overlap", "?overlaps"):
                    continue
                p = "%s %s %s" % (a_, b_, w_)
                cmds.append("\t".join(["run", str(len(cmds)), "max=50,t=30", zw.hexq(p)])); meta.append(("aset", p))
                p = "%s (|S| S %s %s [S elem] length)" % (a_, b_, w_)
                cmds.append("\t".join(["run", str(len(cmds)), "max=50,t=30", zw.hexq(p)])); meta.append(("aset", p))
    # deep stacks of mixed types, popped several times in a row (drop, or an id block), then a word that
    # dispatches on the cached type profile (tla/Stack.tla): a stale profile selects an overload for
    # values of another class
    lits = {"0": "1", "1": '"s"', "2": "[]"}
    import itertools
    for kinds in itertools.product("012", repeat=5):
        base = " ".join(lits[k] for k in kinds)
        for tail in ("drop drop drop add", "drop drop drop drop length", "(|A B C| add)", "(|A B C| ?eq) 7", "drop drop (|A| swap add)"):
            p = base + " " + tail
            cmds.append("\t".join(["run", str(len(cmds)), "max=50,t=30", zw.hexq(p)])); meta.append(("deep", p))
    # abandonment after every pull count (hist: execute, k pulls, destroy)
    aband = rng.sample(progs, 150 if tier == "quick" else 1500) + [p for p, f in dwq[:0]]
    for p in aband:
        for k in range(0, 5):
            sched = ",".join(["e0:0"] + ["p0"] * k + ["d0"])
            cmds.append("\t".join(["hist", str(len(cmds)), "t=30", zw.hexq(p), sched, zw.hexq("")])); meta.append(("abandon%d" % k, p))
    vd.lap("generate")
    # 2a. sanitizer build: memory errors, UB, leaks; the lifecycle hook aborts at the faulty call
    os.environ.update({k: v for k, v in san_env().items() if k.endswith("SAN_OPTIONS")})
    os.environ["ZWDRV_LEAK_EVERY"] = "40"
    res = zw.run_driver(os.path.join(san, "bin", "zwdrv"), cmds, wd, tag="san", max_hangs=60)
    os.environ["ZWDRV_LEAK_EVERY"] = "1"
    byid = {r.get("id"): r for r in res}
    leaks = []
    for i, (kind, p) in enumerate(meta):
        r = byid.get(str(i))
        vd.cov["evaluations"] += 1
        if r is None:
            raise common.ToolError("no record for command %d" % i)
        if r.get("status") in ("crash", "terminate"):
            err = r.get("stderr", "")
            what = "lifecycle hook abort" if "DWGREP_VERIF scon" in err else \
                   ("sanitizer report" if "Sanitizer" in err or "runtime error" in err else "crash")
            vd.observe("%s on `%s'" % (what, p), {"kind": kind, "program": p, "observed": r})
        elif r.get("leak"):
            # somewhere in the window of the last 40 commands
            leaks.extend(range(max(0, i - 39), i + 1))
    # a leak is attributed to a command only if an isolated run of that command leaks
    seenp = set()
    for i in leaks:
        kind, p = meta[i]
        if (kind, p) in seenp:
            continue
        seenp.add((kind, p))
        one = zw.run_driver(os.path.join(san, "bin", "zwdrv"), [cmds[i]], wd, tag="leak1")
        r1 = one[0] if one else {}
        if not r1.get("leak"):
            continue
        if r1.get("status") == "parse_error":
            err = r1.get("err", "")
            # a syntax error inside a splice is thrown by parse_subquery, i.e. from inside the lexer of the
            # enclosing parser (a syntax error of the outermost parser is returned by yyparse, and must not leak)
            if err == "syntax error" and "%(" in p:
                err = "syntax error inside a splice"
            vd.observe("leak on rejected query: " + err, {"program": p, "observed": r1})
        elif r1.get("status") == "runtime_error":
            vd.observe("leak on run-time error `%s'" % p, {"program": p, "observed": r1})
        else:
            vd.observe("leak on `%s'" % p, {"kind": kind, "program": p, "observed": r1})
    vd.cov["distinct_nontrivial"] = len(set(p for k, p in meta))
    # 2a'. the objects of the C API and who owns them (tla/ApiObj.tla; shared with C14): random call sequences over
    # values and stacks -- create, clone, format, push (copy), push_take (hand over), execute, destroy -- replayed
    # through libzwerg.h alone; after the model's last owner has destroyed its objects nothing may be left, nothing
    # destroyed twice
    import c14
    c14.api_objects(vd, san, wd, tier, memory=True)
    vd.lap("sanitizer-run")
    # 2b. hooked plain build with the event trace on; the trace is validated against Lifecycle.tla
    tf = os.path.join(wd, "scon-trace.ndjson")
    env = dict(os.environ); env["DWGREP_VERIF_TRACE"] = tf
    sub = [c for c, (k, p) in zip(cmds, meta) if k not in ("rejected", "bytes", "mutation", "aset")][: 1200 if tier == "quick" else 6000]
    cf = os.path.join(wd, "trace-cmds.txt")
    open(cf, "w").write("\n".join(sub) + "\n")
    start = 0
    while start < len(sub):
        pr = subprocess.run([os.path.join(plain, "bin", "zwdrv"), cf, str(start)], stdout=subprocess.PIPE,
                            stderr=subprocess.PIPE, env=env, timeout=3600)
        n = len([l for l in pr.stdout.decode("utf-8", "replace").splitlines() if l.strip()])
        if pr.returncode == 0:
            break
        if b"DWGREP_VERIF scon" in pr.stderr:
            p = sub[start + n].split("\t")[3] if start + n < len(sub) else "?"
            vd.observe("lifecycle hook abort on `%s'" % bytes.fromhex(p).decode("utf-8", "replace"),
                       {"stderr": pr.stderr.decode("utf-8", "replace")[-1500:]})
        start += max(n, 1) + (0 if pr.returncode in (3, 4) else 1)
    # the tests of the repository's CLI suite on the hooked binary add their events
    try:
        subprocess.run(["bash", "tests.sh", os.path.join(plain, "bin", "dwgrep")], cwd=tests, env=env,
                       stdout=subprocess.PIPE, stderr=subprocess.PIPE, timeout=900)
    except subprocess.TimeoutExpired:
        pass
    vd.lap("trace-run")
    nlines = sum(1 for _ in open(tf)) if os.path.exists(tf) else 0
    # validate in chunks cut at process/buffer boundaries
    lines = open(tf).read().splitlines() if nlines else []
    chunks, cur, live = [], [], 0
    for ln in lines:
        cur.append(ln)
        if '"e":"dtor"' in ln and len(cur) > 20000:
            chunks.append(cur); cur = []
    if cur:
        chunks.append(cur)
    validated = 0
    for ci, ch in enumerate(chunks):
        # a chunk may start in the middle of the life of other buffers: keep only complete buffers
        ids_started = set()
        keep = []
        for ln in ch:
            ev = json.loads(ln)
            if ev["e"] == "reset":
                keep.append(ln); continue
            if ev["e"] == "con" and ev["sc"] not in ids_started:
                ids_started.add(ev["sc"])
            if ev["sc"] in ids_started:
                keep.append(ln)
            if ev["e"] == "dtor":
                ids_started.discard(ev["sc"])
        cfile = os.path.join(wd, "chunk%d.ndjson" % ci)
        open(cfile, "w").write("\n".join(keep) + "\n")
        t = tlc.run_tlc("LifecycleTrace", spec="TSpec", invariants=["NoOverlap"], workers=1, timeout=1500,
                        env={"LCTRACE": cfile}, heap="8g")
        if t.violated:
            vd.observe("trace invariant " + t.violated, {"chunk": cfile})
        elif not t.ok:
            raise common.ToolError("LifecycleTrace failed\n" + t.out[-2000:])
        elif t.depth != len(keep) + 1:
            bad = keep[t.depth - 1] if t.depth - 1 < len(keep) else "?"
            vd.observe("lifecycle trace rejected at event " + bad[:200], {"chunk": cfile, "line": t.depth})
        else:
            validated += len(keep)
        vd.add_states(t)
    vd.lap("trace-validation")
    vd.cov["traces_validated_against_impl"] = validated
    vd.cov["trace_events"] = nlines
    vd.sample({"program": progs[0]}); vd.sample({"rejected": REJECTED[:5]}); vd.sample({"runtime_failure": RUNTIME_FAIL[:4]})
    return vd.finish(rule="(1) TLC: lifecycle invariants (get only on live state, con only on dead, all dead after destroy at any "
                     "abandonment point) on the engine model for four families; (2) sampled TLC-enumerated programs, rejected "
                     "queries, every byte value in ten lexical positions, random byte mutations of seed programs, address-set arithmetic of every shape (storage that grows and moves), run-time failures, DWARF queries and abandonment after 0..4 pulls on the ASan+UBSan+LSan build with "
                     "the scon shadow-map hook armed, and the call sequences over API values and stacks of tla/ApiObj.tla (every object destroyed by its last owner, then the leak check); (3) con/des/dtor event traces of the same runs and of tests/tests.sh on the "
                     "hooked build validated by TLC against tla/Lifecycle.tla; non-trivial = distinct programs",
                     level="model_checking")

def replay(path):
    print(open(path).read())
    return 0
