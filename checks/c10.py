"""C10: closures yield each reachable stack exactly once per input and terminate."""
import os, sys, json
import common, engine, zw

PID = "C10"

def run(tier):
    vd = common.Verdict(PID, tier)
    wd = common.scratch(PID)
    bdir = common.build("plain")
    r = engine.model_check(vd, "closure", 2 if tier == "quick" else 3)
    if r.violated:
        vd.observe("model:closure:" + r.violated, {"tlc_invariant": r.violated, "output": r.out[-6000:]})
    vecs, st = engine.generate("closure", 3, 16, wd)
    engine.replay(vd, vecs, bdir, wd, PID, check_illformed=False)
    return vd.finish(rule="closure bodies over small finite graphs (family 'closure' of tla/Progs0.tla: "
                     "1 add bounded by ?(3 ?lt), 2 div, 1 add 3 mod, dup/drop, multi-yield bodies with ALT/OR, "
                     "nested closures) up to weight 3, on a two-stack stream and a single stack; expected "
                     "reachability sets from Zw!Den (Closure); termination: TLC invariant NeverOutOfFuel "
                     "on the engine model, 20 s budget per program on the implementation",
                     exhaustive=True, extra={"family": st})

def replay(path):
    import c01
    return c01.replay(path)
