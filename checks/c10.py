"""C10: closures yield each reachable stack exactly once per input and terminate."""
import os, sys, json
import common, engine, zw

PID = "C10"

def run(tier):
    vd = common.Verdict(PID, tier)
    wd = common.scratch(PID)
    bdir = common.build("plain")
    r = engine.model_check(vd, "closure", 2 if tier == "quick" else 3)
    if r.violated:
        vd.observe("model:closure:" + r.violated, {"tlc_invariant": r.violated, "output": r.out[-6000:]})
    # small-step model of op_tr_closure over every graph on 3 nodes: safety and termination under fairness
    import tlc
    for plus in (False, True):
        t = tlc.run_tlc("ClosureSteps", constants={"Nodes": (1, 2, 3) if tier == "quick" else (1, 2, 3), "IsPlus": plus, "MutSeen": "none"},
                        spec="FairSpec", invariants=["NoDuplicates", "OnlyReachable", "Complete"], props=["Terminates"],
                        workers=8, timeout=1500)
        if t.violated or "Temporal properties were violated" in t.out:
            vd.observe("model:ClosureSteps:%s" % (t.violated or "Terminates"), {"output": t.out[-4000:]})
        elif not t.ok:
            raise common.ToolError("TLC ClosureSteps failed\n" + t.out[-2000:])
        vd.add_states(t)
    vecs, st = engine.generate("closure", 3, 16, wd)
    engine.replay(vd, vecs, bdir, wd, PID, check_illformed=False)
    # bodies that change a slot below the top (family 'botslot'): the seen-set must tell stacks apart by every slot
    vecs2, st2 = engine.generate("botslot", 1, 2, wd)
    engine.replay(vd, vecs2, bdir, wd, PID, check_illformed=False)
    st = dict(st, botslot=st2) if isinstance(st, dict) else [st, st2]
    dwarf_closures(vd, os.path.join(bdir, "bin", "zwdrv"), wd)
    return vd.finish(rule="closures over the DIE graphs of four sample files (bodies of one to three steps over child, parent, "
                     "@AT_type, ALT of them; * and +; from every unit root and from every DIE): the yields per input are the "
                     "reachable set computed from the one-step relation, each DIE once; closure bodies over small finite graphs (family 'closure' of tla/Progs0.tla: "
                     "1 add bounded by ?(3 ?lt), 2 div, 1 add 3 mod, dup/drop, multi-yield bodies with ALT/OR, "
                     "nested closures) up to weight 3, on a two-stack stream and a single stack; expected "
                     "reachability sets from Zw!Den (Closure); termination: the temporal property <>done under weak "
                     "fairness on the small-step model tla/ClosureSteps.tla (every graph on 3 nodes with up to 2 successors per "
                     "node, 1-2 inputs, star and plus), invariant NeverOutOfFuel on the engine model, 20 s budget per program on "
                     "the implementation",
                     exhaustive=True, extra={"family": st})

BODIES = ["child", "parent", "child parent", "parent child", "(child,) child", "(child, parent)", "child child", "@AT_type",
          "(child, @AT_type)", "@AT_type child", "child @AT_type parent", "parent parent child", "(@AT_type, parent)", "child (parent,)"]


def dwarf_closures(vd, drv, wd):
    """Closures over real graphs: the DIE tree and the type references of sample files (cycles through parent /
    child, diamonds through @AT_type).  The one-step relation of every body is read off the implementation DIE by
    DIE; the closure of it is computed here; `B*' and `B+' must yield, per input DIE, exactly the reachable DIEs,
    each once -- and end."""
    import collections
    tests = os.path.join(common.REPO, "tests")
    cmds, meta = [], []
    for f in ("twocus", "nontrivial-types.o", "typedef.o", "enum.o"):
        fp = os.path.join(tests, f)
        for b in BODIES:
            cmds.append("\t".join(["run", str(len(cmds)), "max=200000,t=60", zw.hexq("entry (|D| [D offset, [D %s offset]])" % b), fp])); meta.append((f, b, "step"))
            for start in ("entry ?root", "entry"):
                for sym in ("*", "+"):
                    q = "%s (|D| [D offset, [D (%s)%s offset]])" % (start, b, sym)
                    cmds.append("\t".join(["run", str(len(cmds)), "max=200000,t=60", zw.hexq(q), fp])); meta.append((f, b, (start, sym)))
    res = {r.get("id"): r for r in zw.run_driver(drv, cmds, wd, tag="dwclosure", max_hangs=4)}
    step = {}
    for i, (f, b, kind) in enumerate(meta):
        r = res.get(str(i)) or {}
        if kind == "step":
            if r.get("status") == "ok":
                step[(f, b)] = {int(x[-1]["v"][0]["v"]): [int(y["v"]) for y in x[-1]["v"][1]["v"]] for x in r["results"]}
            continue
        vd.cov["evaluations"] += 1
        rel = step.get((f, b))
        start, sym = kind
        key = "closure (%s)%s on %s from `%s'" % (b, sym, f, start)
        if r.get("status") == "skipped-after-hangs":
            continue
        if r.get("status") != "ok":
            vd.observe(key + ": " + str(r.get("status")), {"observed": {k: r.get(k) for k in ("status", "err")}}); continue
        if rel is None:
            continue
        for x in r["results"]:
            d = int(x[-1]["v"][0]["v"])
            got = collections.Counter(int(y["v"]) for y in x[-1]["v"][1]["v"])
            seen, work = set(), ([d] if sym == "*" else list(dict.fromkeys(rel.get(d, []))))
            seen.update(work)
            while work:
                for n in rel.get(work.pop(), []):
                    if n not in seen:
                        seen.add(n); work.append(n)
            if got != collections.Counter(seen):
                dup = sorted(k for k, c in got.items() if c > 1)
                vd.observe(key + ": DIE %#x: %s" % (d, "yielded twice: %s" % [hex(k) for k in dup[:5]] if dup else
                                                    "%d yielded, %d reachable" % (len(got), len(seen))),
                           {"missing": [hex(k) for k in sorted(seen - set(got))[:10]], "extra": [hex(k) for k in sorted(set(got) - seen)[:10]]})
                break


def replay(path):
    import c01
    return c01.replay(path)
