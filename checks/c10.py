"""C10: closures yield each reachable stack exactly once per input and terminate."""
import os, sys, json
import common, engine, zw

PID = "C10"

def run(tier):
    vd = common.Verdict(PID, tier)
    wd = common.scratch(PID)
    bdir = common.build("plain")
    r = engine.model_check(vd, "closure", 2 if tier == "quick" else 3)
    if r.violated:
        vd.observe("model:closure:" + r.violated, {"tlc_invariant": r.violated, "output": r.out[-6000:]})
    # small-step model of op_tr_closure over every graph on 3 nodes: safety and termination under fairness
    import tlc
    for plus in (False, True):
        t = tlc.run_tlc("ClosureSteps", constants={"Nodes": (1, 2, 3) if tier == "quick" else (1, 2, 3), "IsPlus": plus, "MutSeen": "none"},
                        spec="FairSpec", invariants=["NoDuplicates", "OnlyReachable", "Complete"], props=["Terminates"],
                        workers=8, timeout=1500)
        if t.violated or "Temporal properties were violated" in t.out:
            vd.observe("model:ClosureSteps:%s" % (t.violated or "Terminates"), {"output": t.out[-4000:]})
        elif not t.ok:
            raise common.ToolError("TLC ClosureSteps failed\n" + t.out[-2000:])
        vd.add_states(t)
    vecs, st = engine.generate("closure", 3, 16, wd)
    engine.replay(vd, vecs, bdir, wd, PID, check_illformed=False)
    return vd.finish(rule="closure bodies over small finite graphs (family 'closure' of tla/Progs0.tla: "
                     "1 add bounded by ?(3 ?lt), 2 div, 1 add 3 mod, dup/drop, multi-yield bodies with ALT/OR, "
                     "nested closures) up to weight 3, on a two-stack stream and a single stack; expected "
                     "reachability sets from Zw!Den (Closure); termination: the temporal property <>done under weak "
                     "fairness on the small-step model tla/ClosureSteps.tla (every graph on 3 nodes with up to 2 successors per "
                     "node, 1-2 inputs, star and plus), invariant NeverOutOfFuel on the engine model, 20 s budget per program on "
                     "the implementation",
                     exhaustive=True, extra={"family": st})

def replay(path):
    import c01
    return c01.replay(path)
