"""Shared machinery of the DWARF properties: forests from tla/Forests.tla -> ELF files -> queries."""
import os, sys, json, binascii, collections
import common, tlc, zw
sys.path.insert(0, os.path.join(common.VERIF, "gen"))
import dwarfgen

TAG = {"cu": 0x11, "pu": 0x3c, "imp": 0x3d, "ns": 0x39, "var": 0x34, "sub": 0x2e, "st": 0x13,
       "callsite": 0x48, "gnucallsite": 0x4109, "inl": 0x1d}
ATN = {"name": 0x03, "line": 0x3b, "ext": 0x3f, "sibling": 0x01, "decl": 0x3c, "type": 0x49, "import": 0x18,
       "spec": 0x47, "orig": 0x31}
FORMC = dwarfgen.FORM
PIN = {"PinnedParent": False, "PinnedFind": False, "PinnedProducer": False, "PinnedPartialOnly": False, "PinnedNoCycleGuard": False, "PinnedCtx": False}


def gen_forests(family, n, wd, shards=8, pinned=None):
    consts = dict(PIN)
    if pinned:
        consts.update(pinned)
    def one(sh):
        out = os.path.join(wd, "forests-%s-%d-%d.ndjson" % (family, n, sh))
        c = dict(consts, Family=family, N=n, OutFile=out, Shard=sh, NShards=shards)
        r = tlc.run_tlc("Forests", constants=c, workers=1, timeout=1500, heap="6g")
        return out, r
    vecs = []
    for out, r in common.parallel(one, list(range(shards)), workers=shards):
        if not r.ok or not os.path.exists(out):
            raise common.ToolError("Forests generation failed\n" + r.out[-2000:])
        vecs += [json.loads(l) for l in open(out) if l.strip()]
        os.unlink(out)
    return vecs


def to_gen_forest(fj):
    """Model forest (JSON from TLC) -> dwarfgen forest.  DIE ids are 1-based indexes.  Units with file = 1 go to
    the dwz alt file; a reference from the main file into it is stored as DW_FORM_GNU_ref_alt."""
    dies = fj["die"]
    nextsib = {}
    for dd in dies:
        for a, b in zip(dd["kids"], dd["kids"][1:]):
            nextsib[a] = b
    fileof = {}
    def mark(i, f):
        fileof[i] = f
        for k in dies[i - 1]["kids"]:
            mark(k, f)
    for u in fj["units"]:
        mark(u["root"], u.get("file", 0))
    def die(i):
        d = dies[i - 1]
        attrs = []
        for a in d["attrs"]:
            n, f, r = a["n"], a["f"], a["r"]
            if n == "name": v = "d%d" % i
            elif n == "line": v = i
            elif n in ("ext", "decl"): v = 1
            elif n in ("import", "spec", "orig"): v = r
            elif n == "sibling": v = r if r else nextsib.get(i, i)
            elif n == "type": v = r if r else i
            else: v = 0
            if n in ("import", "spec", "orig") and fileof.get(v, 0) != fileof.get(i, 0):
                f = "GNU_ref_alt"
            attrs.append({"name": ATN[n], "form": f, "value": v})
        return {"id": i, "tag": TAG[d["tag"]], "children": [die(k) for k in d["kids"]], "has_children": d["hc"],
                "attrs": attrs}
    units, alt = [], []
    for ui, u in enumerate(fj["units"]):
        rec = {"kind": u["kind"], "version": u["ver"], "table": ui, "root": die(u["root"])}
        (alt if u.get("file", 0) else units).append(rec)
    out = {"units": units}
    if alt:
        out["alt_units"] = alt
    return out


ALTBIT = 1 << 40       # a DIE of the dwz alt file is identified by its offset with this bit set


def gen_attrs(fj):
    """DIE id -> [(attribute code, form code)] as the generator stores them (cross-file references are GNU_ref_alt)."""
    g = to_gen_forest(fj)
    out = {}
    def walk(d):
        out[d["id"]] = [(a["name"], FORMC[a["form"]]) for a in d["attrs"]]
        for c in d["children"]:
            walk(c)
    for u in g["units"] + g.get("alt_units", []):
        walk(u["root"])
    return out


class Built:
    def __init__(self, path, offs):
        self.path = path
        self.off = {int(k[4:]): v for k, v in offs.items() if k.startswith("die_")}
        self.off.update({int(k[8:]): v | ALTBIT for k, v in offs.items() if k.startswith("alt_die_")})
        self.unit_off = {int(k[5:]): v for k, v in offs.items() if k.startswith("unit_")}
        nmain = len(self.unit_off)      # the units of the alt file follow those of the main file
        self.unit_off.update({nmain + int(k[9:]): v for k, v in offs.items() if k.startswith("alt_unit_")})
        self.rev = {v: k for k, v in self.off.items()}


def build_all(vecs, wd, prefix):
    built = []
    def one(iv):
        i, v = iv
        o, offs, tabs = dwarfgen.build(to_gen_forest(v["forest"]), wd, "%s%d" % (prefix, i))
        return Built(o, offs)
    return common.parallel(one, list(enumerate(vecs)), workers=12)


def die_id(b, val):
    """(die id, chain ids) of a DIE value printed by the driver."""
    off = val["off"] | (ALTBIT if val.get("alt") else 0)
    return (b.rev.get(off, -off), tuple(b.rev.get(x, -x) for x in val.get("imp", [])))


def ident(b, val):
    """The id of the DIE that a driver value denotes: a DIE value, or (main file only) its offset as a constant."""
    if val["t"] == "die":
        return die_id(b, val)[0]
    return b.rev.get(cst(val), -1)


def run_queries(drv, jobs, wd, tag):
    """jobs: list of (file, query, raw flag) -> list of driver records."""
    cmds = []
    for i, (f, q, raw) in enumerate(jobs):
        cmds.append("\t".join(["run", str(i), "max=5000,t=60" + (",raw" if raw else ""), zw.hexq(q), f]))
    res = zw.run_driver(drv, cmds, wd, tag=tag)
    byid = {r.get("id"): r for r in res}
    return [byid.get(str(i)) for i in range(len(jobs))]


def cst(v):
    return int(v["v"]) if v["t"] == "cst" else None
