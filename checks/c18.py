"""C18: ELF symbols are reported completely and faithfully."""
import os, sys, json, random, subprocess, re, binascii, glob
import common, tlc, zw, dwarfchk as D
sys.path.insert(0, os.path.join(common.VERIF, "gen"))
import elfgen

PID = "C18"
Q = 'symbol [pos, name, value, address, size, label value, binding value, visibility value, label "%s", binding "%s", visibility "%s"]'
STT_NAMES = {0: "NOTYPE", 1: "OBJECT", 2: "FUNC", 3: "SECTION", 4: "FILE", 5: "COMMON", 6: "TLS", 10: "GNU_IFUNC"}
STB_NAMES = {0: "LOCAL", 1: "GLOBAL", 2: "WEAK", 10: "GNU_UNIQUE"}
STV_NAMES = {0: "DEFAULT", 1: "INTERNAL", 2: "HIDDEN", 3: "PROTECTED"}
MACH_STT = {"arm": {13: "ARM_TFUNC", 15: "ARM_16BIT"}, "sparc": {13: "SPARC_REGISTER"}, "parisc": {13: "PARISC_MILLICODE"}}
MACH_STB = {"mips": {13: "MIPS_SPLIT_COMMON"}}


def readelf_syms(path):
    out = subprocess.run(["readelf", "-sW", path], stdout=subprocess.PIPE, stderr=subprocess.PIPE).stdout.decode("utf-8", "replace")
    rows = []
    for line in out.splitlines():
        m = re.match(r"\s*(\d+):\s+([0-9a-f]+)\s+(\d+|0x[0-9a-f]+)\s+(\S+)\s+(\S+)\s+(\S+)\s+(\S+)\s?(.*)$", line)
        if m:
            rows.append({"idx": int(m.group(1)), "value": int(m.group(2), 16), "size": int(m.group(3), 0), "type": m.group(4),
                         "bind": m.group(5), "vis": m.group(6), "name": m.group(8).strip()})
    return rows


def check_file(vd, path, rec, machine, key):
    syms, em = elfgen.read_symtab(path)
    if not rec or rec.get("status") != "ok":
        vd.observe(key + ": symbol query failed", {"observed": rec, "file": path}); return False
    got = [x[-1]["v"] for x in rec["results"]]
    if len(got) != len(syms):
        vd.observe(key + ": %d symbols reported, the table has %d" % (len(got), len(syms)), {"file": path}); return False
    for i, (g, s) in enumerate(zip(got, syms)):
        name = binascii.unhexlify(g[1]["hex"])
        vals = [D.cst(g[0]), name, D.cst(g[2]), D.cst(g[3]), D.cst(g[4]), D.cst(g[5]), D.cst(g[6]), D.cst(g[7])]
        exp = [i, s["name"], s["value"], s["value"], s["size"], s["type"], s["bind"], s["vis"]]
        # section symbols are given the section's name by libdwfl when their own name is empty
        if s["type"] == 3 and not s["name"]:
            exp[1] = vals[1]
        if vals != exp:
            fields = ["pos", "name", "value", "address", "size", "label", "binding", "visibility"]
            wrong = [f for f, a, b in zip(fields, vals, exp) if a != b]
            vd.observe(key + ": symbol field %s" % ",".join(wrong), {"index": i, "expected": exp, "observed": vals, "file": path}); return False
        if rec["results"][i][-1]["pos"] != 0 and False:
            pass
        tname = binascii.unhexlify(g[8]["hex"]).decode(); bname = binascii.unhexlify(g[9]["hex"]).decode(); vname = binascii.unhexlify(g[10]["hex"]).decode()
        et = MACH_STT.get(machine, {}).get(s["type"]) or STT_NAMES.get(s["type"])
        eb = MACH_STB.get(machine, {}).get(s["bind"]) or STB_NAMES.get(s["bind"])
        if et and tname != "STT_" + et:
            vd.observe(key + ": type rendered as %s, expected STT_%s" % (tname, et), {"index": i, "file": path}); return False
        if eb and bname != "STB_" + eb:
            vd.observe(key + ": binding rendered as %s, expected STB_%s" % (bname, eb), {"index": i, "file": path}); return False
        # a code without a name in the family is shown relative to the ELF range it lies in (LOOS = 10,
        # LOPROC = 13): whatever base the text names, base + offset must be the stored code
        for txt, code, pfx in ((tname, s["type"], "STT_"), (bname, s["bind"], "STB_")):
            mm = re.match(r"^" + pfx + r"(LOOS|LOPROC)\+(\d+)$", txt)
            if mm and {"LOOS": 10, "LOPROC": 13}[mm.group(1)] + int(mm.group(2)) != code:
                vd.observe(key + ": code %d rendered as %s" % (code, txt), {"index": i, "file": path}); return False
        if vname != "STV_" + STV_NAMES[s["vis"]]:
            vd.observe(key + ": visibility rendered as %s" % vname, {"index": i, "file": path}); return False
    return True


def run(tier):
    vd = common.Verdict(PID, tier)
    wd = common.scratch(PID)
    rng = random.Random(common.seed())
    bdir = common.build("plain")
    drv = os.path.join(bdir, "bin", "zwdrv")
    out = os.path.join(wd, "symtab.ndjson")
    r = tlc.run_tlc("SymtabGen", constants={"OutFile": out, "N": 2}, workers=1, timeout=900, heap="6g")
    if not r.ok or not os.path.exists(out):
        if "ssumption" in r.out and "is false" in r.out:
            vd.observe("model:symbol producer / family laws", {"output": r.out[-3000:]})
        raise common.ToolError("SymtabGen failed\n" + r.out[-2000:])
    vecs = [json.loads(l) for l in open(out) if l.strip()]
    tables = [v for v in vecs if v["kind"] == "table"]
    pairs = [v for v in vecs if v["kind"] == "pair"]
    vd.cov["states"] = len(vecs); vd.cov["transitions"] = len(vecs)
    if tier == "quick":
        tables = [tables[0]] + rng.sample(tables[1:], min(500, len(tables) - 1))
    machines = ["x86_64", "arm", "sparc", "mips", "ppc64"]
    jobs, meta = [], []
    for ti, t in enumerate(tables):
        m = machines[ti % len(machines)]
        syms = []
        for k, s in enumerate(t["tab"][1:]):
            syms.append({"name": s["name"] * (1 + 40 * (k % 2)), "value": [0, 8, 2**63, 2**64 - 16][(ti + k) % 4], "size": [0, 1, 2**32][(ti + k) % 3],
                         "type": s["type"], "bind": s["bind"], "vis": s["vis"], "shndx": [1, 0xfff1, 0, 1, 0xfff2][(ti + 2 * k) % 5]})
        p = os.path.join(wd, "sym%d.o" % ti)
        elfgen.write_obj(p, m, syms, big_endian=(m in ("sparc", "ppc64") and ti % 2 == 0))
        jobs.append((p, Q, False)); meta.append((p, m, t))
    # tables with every type / binding code, empty and long names, per machine
    for m in machines + ["parisc", "unknown"]:
        syms = [{"name": "t%d" % t, "value": t, "size": t, "type": t, "bind": 0, "vis": 0, "shndx": 1} for t in range(16)]
        syms += [{"name": "b%d" % b_, "value": 0, "size": 0, "type": 0, "bind": b_, "vis": b_ % 4, "shndx": 0xfff1} for b_ in range(1, 16)]
        # st_other carries more than the visibility: the upper six bits are the processor's (PPC64 local entry,
        # MIPS PLT / PIC / MIPS16, AArch64 variant PCS ...); visibility is the low two bits only
        syms += [{"name": "o%d" % k, "value": 0, "size": 0, "type": 2, "bind": 1, "vis": k % 4, "other": ob, "shndx": 1}
                 for k, ob in enumerate([0x60, 0x80, 0x08, 0xfc, 0x04, 0x20, 0xe0, 0x10])]
        # symbols that are not in any section: absolute, undefined, common (st_value of an unallocated common
        # symbol is its alignment: it is reported like any other st_value)
        syms += [{"name": "c%d" % k, "value": v, "size": 4 * k, "type": ty, "bind": 1, "vis": 0, "shndx": sx}
                 for k, (v, ty, sx) in enumerate([(8, 1, 0xfff2), (32, 5, 0xfff2), (1, 1, 0xfff2), (2**40, 1, 0xfff2), (16, 1, 0xfff1), (16, 0, 0)])]
        syms += [{"name": "", "value": 7, "size": 0, "type": 1, "bind": 1, "vis": 0, "shndx": 1}, {"name": "x" * 3000, "value": 1, "size": 1, "type": 2, "bind": 2, "vis": 3, "shndx": 0}]
        p = os.path.join(wd, "all-%s.o" % m)
        elfgen.write_obj(p, m, syms)
        jobs.append((p, Q, False)); meta.append((p, m, None))
    recs = D.run_queries(drv, jobs, wd, "sym")
    nok = 0
    for (p, m, t), rec in zip(meta, recs):
        vd.cov["evaluations"] += 1
        n = len(t["tab"]) if t else 48
        if check_file(vd, p, rec, m, "generated symbol table (%s, %d entries)" % (m, n)):
            nok += 1
        # cross-check of the generator with readelf
        rs = readelf_syms(p)
        if len(rs) != len(elfgen.read_symtab(p)[0]):
            raise common.ToolError("readelf and the python reader disagree on %s" % p)
    # equality of type / binding constants across machines
    cmds, cmeta = [], []
    for pr in pairs:
        a, b_ = os.path.join(wd, "all-%s.o" % pr["m1"]), os.path.join(wd, "all-%s.o" % pr["m2"])
        for t in [0, 1, 2, 10, 13]:
            eq = pr["typeeq"][str(t)] if isinstance(pr["typeeq"], dict) else pr["typeeq"][[0, 1, 2, 10, 13].index(t)]
            q = '"%s" dwopen symbol (pos == %d) label "%s" dwopen symbol (pos == %d) label ?eq' % (a, t + 1, b_, t + 1)
            cmds.append("\t".join(["run", str(len(cmds)), "max=5", zw.hexq(q)])); cmeta.append(("type", pr["m1"], pr["m2"], t, eq))
        for bb in [0, 1, 2, 13]:
            eq = pr["bindeq"][str(bb)] if isinstance(pr["bindeq"], dict) else pr["bindeq"][[0, 1, 2, 13].index(bb)]
            if bb == 0:
                continue
            q = '"%s" dwopen symbol (pos == %d) binding "%s" dwopen symbol (pos == %d) binding ?eq' % (a, 16 + bb, b_, 16 + bb)
            cmds.append("\t".join(["run", str(len(cmds)), "max=5", zw.hexq(q)])); cmeta.append(("binding", pr["m1"], pr["m2"], bb, eq))
    res = zw.run_driver(drv, cmds, wd, tag="symeq")
    byid = {r_.get("id"): r_ for r_ in res}
    for i, (kind, m1, m2, code, eq) in enumerate(cmeta):
        r_ = byid.get(str(i))
        vd.cov["evaluations"] += 1
        if not r_ or r_.get("status") != "ok":
            vd.observe("symbol %s equality query failed" % kind, {"observed": r_}); continue
        got = len(r_["results"]) == 1
        if got != eq:
            vd.observe("symbol %s code %d of %s and %s compare %s" % (kind, code, m1, m2, "equal" if got else "unequal"),
                       {"expected_equal": eq})
        else:
            nok += 1
    # the repository's samples against the independent reader and readelf
    tests = os.path.join(common.REPO, "tests")
    samples = [("y.o", "arm"), ("y-mips.o", "mips"), ("a1.out", "x86_64"), ("twocus", "x86_64"), ("float_const_value.o-ppc64", "ppc64"),
               ("float_const_value.o-armv7hl", "arm"), ("enum.o", "x86_64"), ("bitcount.o", "x86_64")]
    sj = [(os.path.join(tests, s), Q, False) for s, m in samples]
    srecs = D.run_queries(drv, sj, wd, "samples")
    for (s, m), rec in zip(samples, srecs):
        vd.cov["evaluations"] += 1
        p = os.path.join(tests, s)
        if check_file(vd, p, rec, m, "sample %s" % s):
            nok += 1
        rs = readelf_syms(p)
        mine = elfgen.read_symtab(p)[0]
        if len(rs) == len(mine) and any(a["value"] != b_["value"] or a["size"] != b_["size"] for a, b_ in zip(rs, mine)):
            raise common.ToolError("readelf and the python reader disagree on %s" % p)
    vd.cov["distinct_nontrivial"] = nok
    vd.cov["traces_validated_against_impl"] = nok
    vd.sample({"table": tables[3]["tab"], "machine": machines[3 % 5]})
    return vd.finish(rule="tla/Symtab.tla: symbol_producer yields every entry once in order numbered from zero (all tables up to 2 "
                     "symbols over 5 types x 4 bindings x 4 visibilities), and the family rules for type / binding constants across "
                     "machines; implementation: generated ELF objects (own writer; %d tables, little and big endian, machines x86-64, "
                     "ARM, SPARC, MIPS, PPC64, PA-RISC, unknown; all 16 type and binding codes, undefined / absolute / section "
                     "indexes, empty and 3000-character names, values up to 2^64-16) read back through `symbol (pos, name, value, "
                     "address, size, label, binding, visibility)' and compared with an independent python reader (cross-checked with "
                     "readelf -sW); equality of type / binding constants for every machine pair; 8 sample binaries" % len(meta))

def replay(path):
    print(open(path).read())
    return 0
