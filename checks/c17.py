"""C17: location lists, their operations and abbreviations are consistent with the DIEs."""
import os, sys, json, random, subprocess, re, glob
import common, tlc, zw, dwarfchk as D
sys.path.insert(0, os.path.join(common.VERIF, "gen"))
import dwarfgen

PID = "C17"
# atom name -> (opcode, operand encoder kinds of dwarfgen)
ATOM = {"lit3": 0x33, "stack_value": 0x9f, "constu": 0x10, "plus_uconst": 0x23, "consts": 0x11, "fbreg": 0x91, "breg5": 0x75,
        "addr": 0x03, "bregx": 0x92, "bit_piece": 0x9d, "implicit_value": 0x9e, "entry_value": 0xf3}
# boundary operands substituted for the model's small numbers, by operand class
SUBST = {"u": [0, 1, 127, 128, 2**32, 2**64 - 1], "s": [0, -1, 63, -64, 64, -65, 2**63 - 1, -2**63], "addr": [0, 0x1000, 2**64 - 1]}


def uleb_len(v):
    n = 1
    while v >= 0x80:
        v >>= 7; n += 1
    return n


def sleb_len(v):
    n = 0
    more = True
    while more:
        b = v & 0x7f
        v >>= 7
        if (v == 0 and not (b & 0x40)) or (v == -1 and (b & 0x40)):
            more = False
        n += 1
    return n


def concretize(ops, rng):
    """model ops -> [(opcode, args, expected values)] with boundary operands; also the op sizes."""
    out = []
    fixed = {"a8": 8, "u1": 1, "s1": 1, "u2": 2, "s2": 2, "u4": 4, "s4": 4, "u8": 8, "s8": 8}
    for op in ops:
        a, cls = op["atom"], op["cls"]
        if "enc" in op:
            # an operation of the complete table (tla/Loc.tla: OpTable): its own operands, its own encoding
            size = 1 + sum(fixed[e] if e in fixed else (uleb_len(v) if e == "uleb" else sleb_len(v))
                           for e, v in zip(op["enc"], op["args"]))
            kind = "hex" if cls == "addr" else "dec"
            exp = [] if cls == "none" else [(kind, v) for v in op["args"]]
            # the generator's own operand table must agree on the encoding, or the bytes are not what the model says
            if dwarfgen.OPS.get(op["code"]) != list(op["enc"]):
                raise common.ToolError("generator and tla/Loc.tla disagree on the encoding of %s" % a)
            out.append((op["code"], list(op["args"]), exp, size))
            continue
        code = ATOM[a]
        if cls == "none":
            out.append((code, [], [], 1))
        elif cls == "u":
            v = rng.choice(SUBST["u"]); out.append((code, [v], [("dec", v)], 1 + uleb_len(v)))
        elif cls == "s":
            v = rng.choice(SUBST["s"]); out.append((code, [v], [("dec", v)], 1 + sleb_len(v)))
        elif cls == "addr":
            v = rng.choice(SUBST["addr"]); out.append((code, [v], [("hex", v)], 9))
        elif cls == "us":
            u, s = rng.choice(SUBST["u"][:5]), rng.choice(SUBST["s"]); out.append((code, [u, s], [("dec", u), ("dec", s)], 1 + uleb_len(u) + sleb_len(s)))
        elif cls == "uu":
            u, v = rng.choice(SUBST["u"][:5]), rng.choice(SUBST["u"][:5]); out.append((code, [u, v], [("dec", u), ("dec", v)], 1 + uleb_len(u) + uleb_len(v)))
        elif cls == "block":
            blk = [rng.randrange(256) for _ in range(rng.randrange(1, 5))]
            out.append((code, [blk], [("block", blk)], 1 + 1 + len(blk)))
        elif cls == "nested":
            inner = [(0x55, [])]                       # DW_OP_reg5
            out.append((code, [inner], [("llelem", 1)], 1 + 1 + 1))
    return out


def typed_ops(vd, drv, wd, typed):
    """Operations with DIE, index and nested operands (Loc!TypedOps): the DWARF 5 operations and the GNU
    extensions they were standardised from, each alone in an expression, in a version 5 and a version 4 unit."""
    units, plan = [], []
    nid = [40000]
    def newid():
        nid[0] += 1; return nid[0]
    for ver in (5, 4):
        tdie = newid()
        kids = [{"id": tdie, "tag": 0x24, "children": [], "attrs": [{"name": 3, "form": "string", "value": "t"}, {"name": 0x0b, "form": "data1", "value": 4},
                                                                      {"name": 0x3e, "form": "data1", "value": 5}]}]
        for t in typed:
            op = t["op"]
            args, exp = [], []
            for k, e in enumerate(op["enc"]):
                if e in ("ulebref", "u4ref", "u2ref"): args.append(tdie); exp.append(("cuoff", tdie))
                elif e == "refaddr": args.append(tdie); exp.append(("die", tdie))
                elif e == "uleb": v = 3 + 100 * k; args.append(v); exp.append(("dec", v))
                elif e == "u1": args.append(4); exp.append(("dec", 4))
                # libdw (0.188) reads the byte offset of DW_OP_implicit_pointer as an unsigned LEB128 although the
                # standard makes it signed: only values that both readings agree on (0..63) are dwgrep's to get right
                elif e == "sleb": args.append(37); exp.append(("dec", 37))
                elif e == "szblock": args.append([1, 2, 3, 4]); exp.append(("block", [1, 2, 3, 4]))
                elif e == "nested": args.append([(0x55, [])]); exp.append(("llelem", 1))
            if op["cls"] == "die-block":
                exp[0] = ("die", tdie)            # the type DIE itself, then the block
            did = newid()
            kids.append({"id": did, "tag": 0x34, "children": [], "attrs": [{"name": 2, "form": "exprloc", "value": [(op["code"], args)]}]})
            plan.append((did, ver, op, exp, t["branch"]))
        units.append({"kind": "cu", "version": ver, "table": 70 + ver, "root": {"id": newid(), "tag": 0x11, "children": kids, "attrs": []}})
    o, offs, _ = dwarfgen.build({"units": units}, wd, "typedops")
    b = D.Built(o, offs)
    cuoff = {}
    for ui, u in enumerate(units):
        for k in u["root"]["children"]:
            cuoff[k["id"]] = offs["unit_%d" % ui]
    jobs = [(o, "entry (offset == %d) [@AT_location elem [offset, label value, [value]]]" % b.off[did], False) for did, *_ in plan]
    got_by = {}
    for (did, ver, op, exp, branch), rec in zip(plan, D.run_queries(drv, jobs, wd, "typedops")):
        vd.cov["evaluations"] += 1
        key = "DW_OP_%s (version %d unit)" % (op["atom"], ver)
        if not rec or rec.get("status") != "ok" or len(rec["results"]) != 1 or len(rec["results"][0][-1]["v"]) != 1:
            vd.observe(key + ": query failed", {"observed": rec}); continue
        opv = rec["results"][0][-1]["v"][0]["v"]
        vals = []
        for x in opv[2]["v"]:
            if x["t"] == "cst": vals.append(("dec" if x["dom"] == "dec" else x["dom"], int(x["v"])))
            elif x["t"] == "seq": vals.append(("block", [int(y["v"]) for y in x["v"]]))
            elif x["t"] == "llelem": vals.append(("llelem", x["n"]))
            elif x["t"] == "die": vals.append(("die", b.rev.get(x["off"])))
            else: vals.append((x["t"], None))
        want = [("dec", b.off[v] - cuoff[v]) if k == "cuoff" else (k, v) for k, v in exp]
        got_by[(op["atom"], ver)] = [(k, None if k == "dec" and False else v) for k, v in vals]
        if D.cst(opv[0]) != 0 or D.cst(opv[1]) != op["code"] or vals != want:
            vd.observe(key + ": operands", {"expected": want, "observed": vals, "opcode": opv[1], "model_branch": branch})
    # a standardised operation reports what the extension it came from reports
    for (did, ver, op, exp, branch) in plan:
        if op["twin"] != "none" and (op["twin"], ver) in got_by and (op["atom"], ver) in got_by:
            vd.cov["evaluations"] += 1
            if got_by[(op["atom"], ver)] != got_by[(op["twin"], ver)]:
                vd.observe("DW_OP_%s and DW_OP_%s report different operands (version %d unit)" % (op["atom"], op["twin"], ver),
                           {"standard": got_by[(op["atom"], ver)], "gnu": got_by[(op["twin"], ver)]})
    return len(plan)


ARITY = {"none": 0, "u": 1, "s": 1, "addr": 1, "us": 2, "uu": 2, "block": 1, "nested": 1, "die-s": 2, "die-block": 2}
STD_FORMS = ["addr", "block2", "block4", "data2", "data4", "data8", "string", "block", "block1", "data1", "flag", "sdata", "strp", "udata",
             "ref_addr", "ref1", "ref2", "ref4", "ref8", "ref_udata", "sec_offset", "exprloc", "flag_present", "strx", "addrx",
             "line_strp", "implicit_const", "loclistx", "rnglistx", "strx1", "strx2", "strx3", "strx4", "addrx1", "addrx2", "addrx3", "addrx4"]


def compiled_objects(vd, drv, wd, vecs):
    """What a compiler writes (gen/samples, gcc / g++ at DWARF 2..5, -O0 and -O2): every operation that the tables
    of tla/Loc.tla know reports as many operands as its class has; the laws of elements (length, relem, ?OP_x);
    every attribute in a standard form yields a value (no `unhandled', no `not handled')."""
    import shutil
    if not shutil.which("gcc") or not shutil.which("g++"):
        vd.assumptions.append("no gcc / g++: compiler-produced objects not checked"); return 0
    arity = {}
    for v in vecs:
        if v["kind"] == "sweep": arity[v["ops"][0]["code"]] = ARITY[v["ops"][0]["cls"]]
        elif v["kind"] == "typed": arity[v["op"]["code"]] = ARITY[v["op"]["cls"]]
    arity[0x9e] = 1; arity[0x2f] = 1; arity[0x28] = 1; arity[0x9a] = 1          # implicit_value, skip, bra, call_ref
    src = os.path.join(common.VERIF, "gen", "samples")
    objs = []
    for ver in (2, 3, 4, 5):
        for opt in ("-O0", "-O2"):
            for f, cc in (("s1.c", "gcc"), ("s2.cc", "g++")):
                o = os.path.join(wd, "%s-v%d%s.o" % (f.split(".")[0], ver, opt))
                pr = subprocess.run([cc, "-gdwarf-%d" % ver, "-gno-strict-dwarf" if ver > 3 else "-gstrict-dwarf", opt, "-c", os.path.join(src, f), "-o", o],
                                    stdout=subprocess.PIPE, stderr=subprocess.PIPE)
                if pr.returncode == 0:
                    objs.append(o)
    # the attributes of the location classes (Loc!LocAttrs) and those of call sites, whose value is an expression
    locattrs = [v["at"] for v in vecs if v["kind"] == "locattr"] + ["call_value", "call_data_value", "call_data_location", "call_target",
                                                                      "GNU_call_site_value", "GNU_call_site_data_value", "GNU_call_site_target"]
    jobs = []
    for o in objs:
        jobs.append((o, "entry attribute (" + ", ".join("?AT_" + a for a in locattrs) + ") value (type == T_LOCLIST_ELEM) (|L| [[L elem (|O| [O label value, [O value] length])], L length, "
                        "[L relem label value], [L elem label (|C| L ?(elem label == C) 1)] length])", False))
        for f in STD_FORMS:
            jobs.append((o, "entry attribute (form == DW_FORM_%s) [value] length" % f, False))
    recs = D.run_queries(drv, jobs, wd, "compiled")
    nops, seen_codes = 0, set()
    for (o, q, _), rec in zip(jobs, recs):
        vd.cov["evaluations"] += 1
        name = os.path.basename(o)
        if "T_LOCLIST_ELEM" not in q:
            form = q.split("DW_FORM_")[1].split(")")[0]
            if not rec or rec.get("status") != "ok":
                # an attribute whose value DWARF 2 / 3 stores as an expression in a block (the bound of a variable
                # length array) is reported as not interpreted ("no constant value"): allowed by the statement
                if form.startswith("block") and "-v2" in name or "-v3" in name and form.startswith("block"):
                    continue
                vd.observe("compiled %s: an attribute in DW_FORM_%s is not interpreted: %s" % (name, form, (rec or {}).get("err", "?")[:100]), {"observed": rec})
            elif any(D.cst(x[-1]) == 0 for x in rec["results"]):
                vd.observe("compiled %s: an attribute in DW_FORM_%s has no value" % (name, form), {"n": len(rec["results"])})
            continue
        if not rec or rec.get("status") != "ok":
            vd.observe("compiled %s: location elements: %s" % (name, (rec or {}).get("err", "?")[:100]), {"observed": rec}); continue
        for x in rec["results"]:
            g = x[-1]["v"]
            ops = [(D.cst(o_["v"][0]), D.cst(o_["v"][1])) for o_ in g[0]["v"]]
            if D.cst(g[1]) != len(ops) or [D.cst(c) for c in g[2]["v"]] != [c for c, _ in reversed(ops)] or D.cst(g[3]) != len(ops):
                vd.observe("compiled %s: element laws (length / relem / ?OP_x)" % name, {"ops": ops, "observed": g}); break
            for code, n in ops:
                nops += 1; seen_codes.add(code)
                if code in arity and n != arity[code]:
                    vd.observe("compiled %s: operation %#x reports %d operand(s), its class has %d" % (name, code, n, arity[code]), {"ops": ops}); break
    vd.sample({"compiled_objects": len(objs), "operations": nops, "distinct_opcodes": len(seen_codes),
               "opcodes_outside_the_tables": sorted(hex(c) for c in seen_codes if c not in arity)})
    return len(objs)


def locations(vd, drv, wd, rng, tier):
    """The location part: expressions of tla/Loc.tla (menu pairs and the whole operand table) in every form and
    version, compared operation by operation.  Shared with C07, whose statement covers the operands of location
    attributes as well.  Returns the abbreviation reference lists of the same TLC run."""
    out = os.path.join(wd, "loc.ndjson")
    # the switch over the operations as it was before fix 560f4a6 does not report every operand (self-test)
    rp = tlc.run_tlc("LocGen", constants={"OutFile": out + ".pinned", "MutSeen": "none", "PinnedOps": True}, workers=1, timeout=900)
    if '"TYPEDOPS", FALSE' not in rp.out.replace("\n", " "):
        raise common.ToolError("Loc.tla: the pinned switch is not caught\n" + rp.out[-1500:])
    r = tlc.run_tlc("LocGen", constants={"OutFile": out, "MutSeen": "none", "PinnedOps": False}, workers=1, timeout=900)
    if not r.ok or not os.path.exists(out):
        if "ssumption" in r.out and "is false" in r.out:
            vd.observe("model:location / abbreviation laws", {"output": r.out[-3000:]})
        raise common.ToolError("LocGen failed\n" + r.out[-2000:])
    vecs = [json.loads(l) for l in open(out) if l.strip()]
    exprs = [v for v in vecs if v["kind"] in ("expr", "sweep")]
    if '"TYPEDOPS", TRUE, TRUE' not in r.out.replace("\n", " "):
        vd.observe("model:an operation of Loc!TypedOps does not report its operands (OperandsReported / TwinsAgree)", {"output": r.out[-2000:]})
    typed_ops(vd, drv, wd, [v for v in vecs if v["kind"] == "typed"])
    compiled_objects(vd, drv, wd, vecs)
    refs = [v for v in vecs if v["kind"] == "abbrev"]
    vd.cov["states"] += len(vecs); vd.cov["transitions"] += len(vecs)
    # ---- locations: every expression as exprloc (v4, v5), block1 (v3) and inside a two/three-range location list (v3)
    units, plan = [], []          # plan: die id -> list of (lo, hi, concretized ops)
    nid = [10]
    def newid():
        nid[0] += 1; return nid[0]
    # every attribute of the location classes (Loc!LocAttrs) carries one fixed two-operation expression;
    # DW_AT_location carries all of them
    locattrs = [v for v in vecs if v["kind"] == "locattr"]
    fixed = next(e for e in exprs if e["kind"] == "expr" and len(e["ops"]) == 2 and e["ops"][1]["atom"] == "fbreg")
    work = [(e, 2, "location") for e in exprs] + [(fixed, la["code"], la["at"]) for la in locattrs if la["at"] != "location"]
    LISTS = ("loclist", "loclistx")
    # DWARF 5: location lists live in .debug_loclists, reached by offset (sec_offset) or by index (loclistx), their
    # entries bounded in five ways (two addresses, address and length, indices into .debug_addr, offsets from a base)
    for ver, form in ((4, "exprloc"), (5, "exprloc"), (3, "block1"), (3, "loclist"), (2, "loclist"), (5, "loclist"), (5, "loclistx")):
        kids = []
        cubase = 0x70000 if (ver, form) == (2, "loclist") else 0
        for e, atcode, atname in work:
            if atname == "data_member_location" and form in LISTS:
                # data4 / data8 of DW_AT_data_member_location is read by libdw as a constant offset in every
                # version (the class is ambiguous in DWARF 3); not dwgrep's decision
                continue
            did = newid()
            if form in LISTS:
                nr = 1 + (did % 3)
                ranges = []
                for k in range(nr):
                    c = concretize(e["ops"], rng)
                    ranges.append((0x1000 * (k + 1), 0x1000 * (k + 1) + 0x10 + k, c))
                if not e["ops"]:
                    ranges = ranges[:1]
                val = [(lo, hi, [(c[0], c[1]) for c in cs]) for lo, hi, cs in ranges]
                if ver >= 5:
                    val5 = []
                    for k, (lo, hi, ops) in enumerate(val):
                        kind = ("start_end", "start_length", "startx_endx", "startx_length", "offset_pair")[(did + k) % 5]
                        if kind == "start_length": val5.append((kind, lo, hi - lo, ops))
                        elif kind == "startx_length": val5.append((kind, lo, hi - lo, ops))
                        elif kind == "offset_pair":
                            val5.append(("base_address" if did % 2 else "base_addressx", lo - 8, None))
                            val5.append((kind, 8, hi - lo + 8, ops))
                        else: val5.append((kind, lo, hi, ops))
                    val = val5
                # the entries of .debug_loc are offsets from the unit's base address (its low_pc)
                plan.append((did, form, [(lo + cubase, hi + cubase, cs) for lo, hi, cs in ranges] if ver < 5 else ranges, atname))
            else:
                c = concretize(e["ops"], rng)
                if ver == 3 and any(x[0] in (0x9e, 0x9f, 0xf3, 0x9d) for x in c) and False:
                    continue
                val = [(x[0], x[1]) for x in c]
                plan.append((did, form, [(0, 2**64 - 1, c)], atname))
            kids.append({"id": did, "tag": 0x34, "children": [], "attrs": [{"name": 3, "form": "string", "value": "v%d" % did},
                                                                            {"name": atcode, "form": form, "value": val}]})
        units.append({"kind": "cu", "version": ver, "table": len(units),
                      "root": {"id": newid(), "tag": 0x11, "children": kids, "attrs": [{"name": 3, "form": "string", "value": "u%d" % ver},
                                                                                     {"name": 0x11, "form": "addr", "value": cubase}]}})
    o, offs, tabs = dwarfgen.build({"units": units}, wd, "loc")
    b = D.Built(o, offs)
    q = ("entry (offset == %d) [[@AT_%s [address low, address high, length, [elem [offset, label value, [value]]], "
         "[relem label value], [elem pos], [relem pos]]], [@AT_%s (?OP_lit3, ?OP_constu, ?OP_bregx, ?OP_addr, ?OP_GNU_entry_value) 1], "
         "[@AT_%s (!OP_lit3, !OP_constu, !OP_bregx, !OP_addr, !OP_GNU_entry_value) 0]]")
    jobs = [(o, q % (b.off[did], at, at, at), False) for did, form, rs, at in plan]
    recs = D.run_queries(drv, jobs, wd, "loc")
    nok = 0
    for (did, form, ranges, atname), rec in zip(plan, recs):
        vd.cov["evaluations"] += 1
        atoms = [c[0] for c in ranges[0][2]]
        key = "%s (%s) ops=%s" % (atname, form, [hex(a) for a in atoms])
        if not rec or rec.get("status") != "ok" or len(rec["results"]) != 1:
            vd.observe(key + ": query failed", {"observed": rec, "die": did}); continue
        g = rec["results"][0][-1]["v"]
        elems = g[0]["v"]
        if form in LISTS and not atoms:
            pass
        if len(elems) != len(ranges):
            vd.observe(key + ": %d elements, expected %d" % (len(elems), len(ranges)), {"observed": elems}); continue
        ok = True
        for el, (lo, hi, cs) in zip(elems, ranges):
            ev = el["v"]
            glo = D.cst(ev[0]) if ev[0]["t"] == "cst" else None
            ghi = D.cst(ev[1]) if ev[1]["t"] == "cst" else None
            if form in LISTS and (glo, ghi) != (lo, hi):
                vd.observe(key + ": address range", {"expected": [lo, hi], "observed": [glo, ghi]}); ok = False; break
            if form not in LISTS and (glo, ghi) != (0, 2**64 - 1):
                vd.observe(key + ": address range of an expression without ranges", {"observed": [glo, ghi]}); ok = False; break
            if D.cst(ev[2]) != len(cs):
                vd.observe(key + ": length", {"expected": len(cs), "observed": ev[2]}); ok = False; break
            ops = ev[3]["v"]
            off = 0
            exp_ops = []
            for c in cs:
                exp_ops.append((off, c[0], c[2])); off += c[3]
            got_ops = []
            for opv in ops:
                vals = []
                for x in opv["v"][2]["v"]:
                    if x["t"] == "cst": vals.append(("hex" if x["dom"] == "hex" else "dec", int(x["v"])))
                    elif x["t"] == "seq": vals.append(("block", [int(y["v"]) for y in x["v"]]))
                    elif x["t"] == "llelem": vals.append(("llelem", x["n"]))
                    else: vals.append((x["t"], None))
                got_ops.append((D.cst(opv["v"][0]), D.cst(opv["v"][1]), vals))
            if [(a, b_, [tuple(v) if not isinstance(v[1], list) else (v[0], v[1]) for v in c]) for a, b_, c in got_ops] != \
               [(a, b_, [tuple(v) if not isinstance(v[1], list) else (v[0], v[1]) for v in c]) for a, b_, c in exp_ops]:
                vd.observe(key + ": operations (offset, opcode, operands)", {"expected": exp_ops, "observed": got_ops}); ok = False; break
            if [D.cst(x) for x in ev[4]["v"]] != [c[0] for c in cs][::-1]:
                vd.observe(key + ": relem is not elem reversed", {"observed": ev[4]}); ok = False; break
            # elem numbers its results 0, 1, ...; relem is elem reversed: either numbering of the reversed walk is
            # consistent with that sentence (sequences renumber, location elements keep the positions)
            rp = [D.cst(x) for x in ev[6]["v"]]
            if [D.cst(x) for x in ev[5]["v"]] != list(range(len(cs))) or rp not in (list(range(len(cs))), list(range(len(cs)))[::-1]):
                vd.observe(key + ": elem / relem numbering", {"observed": [ev[5], ev[6]]}); ok = False; break
        if ok:
            # ?OP_x on the elements holds iff some operation has that opcode
            want = sum(1 for lo, hi, cs in ranges for code in (0x33, 0x10, 0x92, 0x03, 0xf3) if any(c[0] == code for c in cs))
            wantneg = sum(1 for lo, hi, cs in ranges for code in (0x33, 0x10, 0x92, 0x03, 0xf3) if not any(c[0] == code for c in cs))
            if len(g[1]["v"]) != want or len(g[2]["v"]) != wantneg:
                vd.observe(key + ": ?OP_x / !OP_x", {"expected": [want, wantneg], "observed": [len(g[1]["v"]), len(g[2]["v"])]}); ok = False
        nok += 1 if ok else 0
    vd.cov["distinct_nontrivial"] += nok
    vd.cov["traces_validated_against_impl"] += nok
    return refs, exprs


def run(tier):
    vd = common.Verdict(PID, tier)
    wd = common.scratch(PID)
    rng = random.Random(common.seed())
    bdir = common.build("plain")
    drv = os.path.join(bdir, "bin", "zwdrv")
    refs, exprs = locations(vd, drv, wd, rng, tier)
    # ---- abbreviations: tables shared between units in every reference order; every DIE's abbreviation
    nab = 0
    for vi, v in enumerate(refs):
        rl = v["refs"]
        tabs_used = sorted(set(rl))
        units = []
        for ui, t in enumerate(rl):
            # the same shapes in every unit so that units sharing a table agree on the codes
            kids = [{"id": 1000 * (ui + 1) + 1, "tag": 0x34, "children": [], "attrs": [{"name": 3, "form": "string", "value": "a"}]},
                    {"id": 1000 * (ui + 1) + 2, "tag": 0x2e, "children": [{"id": 1000 * (ui + 1) + 3, "tag": 0x05, "children": [], "attrs": []}],
                     "attrs": [{"name": 3, "form": "string", "value": "f"}, {"name": 0x3b, "form": "indirect:data1" if t == 8 else "data1", "value": 7}]}]
            if t == 16:
                kids.append({"id": 1000 * (ui + 1) + 4, "tag": 0x24, "children": [], "has_children": True, "attrs": [{"name": 0x0b, "form": "udata", "value": 4}]})
            units.append({"kind": "cu", "version": 4, "table": t, "root": {"id": 1000 * (ui + 1), "tag": 0x11, "children": kids,
                                                                        "attrs": [{"name": 3, "form": "string", "value": "u"}]}})
        forest = {"units": units, "table_order": [0, 8, 16] if vi % 2 == 0 else [16, 8, 0]}
        forest["table_order"] = [t for t in forest["table_order"] if t in tabs_used]
        o, offs, tabs = dwarfgen.build(forest, wd, "ab%d" % vi)
        bb = D.Built(o, offs)
        tabmap = {t["group"]: t["abbrevs"] for t in tabs}
        q1 = "[abbrev [offset, [entry [code, label value, [?haschildren 1], [attribute [label value, form value]]]]]]"
        q2 = "raw entry [offset, [abbrev [code, label value, [?haschildren 1], [attribute [label value, form value]]]], label value, [?haschildren 1], [attribute [label value, form value]]]"
        rr = D.run_queries(drv, [(o, q1, False), (o, q2, False)], wd, "ab")
        vd.cov["evaluations"] += 1
        key = "abbreviation tables referenced in order %s (stored %s):" % (rl, forest["table_order"])
        if not rr[0] or rr[0].get("status") != "ok" or not rr[1] or rr[1].get("status") != "ok":
            vd.observe(key + " query failed", {"observed": rr}); continue
        got_tabs = rr[0]["results"][0][-1]["v"]
        # the distinct tables in order of first reference, each abbreviation once
        exp_order = v["distinct"]
        got = []
        for gt in got_tabs:
            ents = [(D.cst(e["v"][0]), D.cst(e["v"][1]), len(e["v"][2]["v"]) == 1, [(D.cst(a["v"][0]), D.cst(a["v"][1])) for a in e["v"][3]["v"]])
                    for e in gt["v"][1]["v"]]
            got.append(ents)
        exp = []
        for t in exp_order:
            exp.append([(ab["code"], ab["tag"], ab["children"], [(n, dwarfgen.FORM[f]) for n, f, imp in ab["attrs"]]) for ab in tabmap[t]])
        if got != exp:
            vd.observe(key + " abbrev / abbrev entry", {"expected_tables": len(exp), "observed_tables": len(got),
                                                        "expected": exp, "observed": got, "file": o}); continue
        bad = False
        for x in rr[1]["results"]:
            g = x[-1]["v"]
            ab = g[1]["v"]
            if len(ab) != 1:
                vd.observe(key + " a DIE without exactly one abbreviation", {"die": D.cst(g[0])}); bad = True; break
            a0 = ab[0]["v"]
            tag_ok = D.cst(a0[1]) == D.cst(g[2])
            hc_ok = (len(a0[2]["v"]) == 1) == (len(g[3]["v"]) == 1)
            aat = [(D.cst(a["v"][0]), D.cst(a["v"][1])) for a in a0[3]["v"]]
            dat = [(D.cst(a["v"][0]), D.cst(a["v"][1])) for a in g[4]["v"]]
            at_ok = len(aat) == len(dat) and all(n1 == n2 and (f1 == f2 or f1 == 0x16) for (n1, f1), (n2, f2) in zip(aat, dat))
            if not (tag_ok and hc_ok and at_ok):
                vd.observe(key + " abbreviation of a DIE does not match the DIE", {"die": D.cst(g[0]), "abbrev": aat, "die_attrs": dat}); bad = True; break
        if not bad:
            nab += 1
    # samples: laws
    tests = os.path.join(common.REPO, "tests")
    laws = [("length = number of elem", "entry attribute ?AT_location value (|E| [E elem] length != E length)"),
            ("relem = elem reversed", "entry @AT_location (|E| [E elem label] (|A| [E relem label] (|B| A length (|N| A elem (|X| X != B elem (pos == N 1 sub X pos sub))))))"),
            ("?OP_x iff some op", "entry @AT_location (?OP_fbreg !(elem label == DW_OP_fbreg), !OP_fbreg ?(elem label == DW_OP_fbreg))"),
            ("abbrev matches tag", "raw entry (|D| D abbrev label != D label)"),
            ("abbrev matches child flag", "raw entry (?haschildren !(abbrev ?haschildren), !haschildren ?(abbrev ?haschildren))"),
            ("abbrev attribute names", "raw entry (|D| [D abbrev attribute label] != [D attribute label])"),
            ("abbrev entry lists codes once", "abbrev (|U| [U entry code] (|L| L elem (|C| [L elem (== C)] length > 1)))")]
    samples = [os.path.join(tests, x) for x in ("bitcount.o", "aranges.o", "testfile_const_type", "nontrivial-types.o", "a1.out", "dwz-partial",
                                                 "typedef.o", "enum.o", "twocus", "nullptr.o")]
    srecs = D.run_queries(drv, [(s, q_, False) for s in samples for n_, q_ in laws], wd, "samples")
    k = 0
    for s in samples:
        for name, q_ in laws:
            rr = srecs[k]; k += 1
            vd.cov["evaluations"] += 1
            if not rr or rr.get("status") != "ok" or len(rr["results"]) != 0 or rr.get("soft", 0):
                vd.observe("sample %s: law `%s'" % (os.path.basename(s), name), {"query": q_, "observed": rr})
    vd.cov["distinct_nontrivial"] += nab
    vd.cov["traces_validated_against_impl"] += nab
    vd.sample({"expression": exprs[7]["ops"]}); vd.sample({"table_references": refs[9]["refs"]})
    return vd.finish(rule="tla/Loc.tla: expressions of one or two operations over one opcode per operand class (none, unsigned, signed, "
                     "address, unsigned+signed, two unsigned, block, nested expression) with the value table of locexpr_op_values and "
                     "the element laws; each is generated as exprloc (DWARF 4, 5), block1 (DWARF 3) and as a 1-3 range location list "
                     "(DWARF 2, 3; DWARF 5: .debug_loclists by offset and by index, entries bounded in five ways) with boundary operands; every "
                     "operation of the complete operand table and of Loc!TypedOps (DIE, index and nested operands, GNU and DWARF 5 twins) "
                     "alone in an expression; gen/samples compiled by gcc / g++ at DWARF 2..5, -O0 and -O2: operand count by class for every "
                     "operation the compiler wrote, element laws, every attribute in a standard form yields a value; address, length, elem (offset, opcode, operands), relem, numbering and "
                     "?OP_x are compared; abbreviations: every reference order of up to 4 units over 3 tables (stored in ascending or "
                     "descending offset order, DW_FORM_indirect, a childless DIE whose abbreviation claims children): the tables `abbrev' "
                     "yields (each once, each abbreviation once) and the abbreviation of every DIE; 7 law queries on 10 sample files")


def replay(path):
    print(open(path).read())
    return 0
