"""C20: printed values are faithful: constants round-trip, renderings are unambiguous."""
import os, sys, json, random, subprocess, itertools, re, binascii
import common, tlc, zw
sys.path.insert(0, os.path.join(common.VERIF, "gen"))
import headers

PID = "C20"
ALPHABET = (0, 1, 9, 34, 37, 48, 49, 92, 97, 110, 120, 128)
M64 = 2**64


def lit_of(bs):
    return '"' + "".join("\\x%02x" % b for b in bs) + '"'


def run(tier):
    vd = common.Verdict(PID, tier)
    wd = common.scratch(PID)
    rng = random.Random(common.seed())
    bdir = common.build("plain")
    dw = os.path.join(bdir, "bin", "dwgrep")
    drv = os.path.join(bdir, "bin", "zwdrv")
    # 1. the escape table and the literal syntax are inverse; integer shapes (tla/Render.tla)
    r = tlc.run_tlc("MCRender", constants={"Fixed": True, "MaxLen": 3, "Alphabet": ALPHABET, "NoSaver": []}, workers=1, timeout=900)
    if not r.ok:
        if "ssumption" in r.out and "is false" in r.out:
            vd.observe("model:render", {"output": r.out[-3000:]})
        else:
            raise common.ToolError("MCRender failed\n" + r.out[-2000:])
    vd.cov["states"] = sum(len(ALPHABET) ** k for k in range(4)); vd.cov["transitions"] = vd.cov["states"]
    # 2. strings: every string up to length 3 over the alphabet (+ random longer / all single bytes), nested in a
    #    sequence, printed by the CLI and read back as a Zwerg literal
    strings = [bytes(t) for k in range(0, 4) for t in itertools.product(ALPHABET, repeat=k)]
    strings += [bytes([b]) for b in range(256)] + [bytes([b, 0x31]) for b in range(256)]
    strings += [bytes(rng.randrange(256) for _ in range(rng.randrange(4, 12))) for _ in range(300 if tier == "quick" else 5000)]
    if tier == "quick":
        strings = strings[:1] + rng.sample(strings[1:1885], 700) + strings[1885:]
    batch = 40
    printed = {}
    def cli_batch(chunk):
        q = "[" + ", ".join(lit_of(s) for s in chunk) + "] elem [()]"
        pr = subprocess.run([dw, "-e", q], stdout=subprocess.PIPE, stderr=subprocess.PIPE, timeout=60,
                            env=dict(os.environ, LC_ALL="C"))
        return chunk, pr.returncode, pr.stdout
    chunks = [strings[i:i + batch] for i in range(0, len(strings), batch)]
    cmds, meta = [], []
    for chunk, rc, out in common.parallel(cli_batch, chunks, workers=8):
        # each result is a two-value stack: `---`, `["..."]`, `...`; the string may contain newlines, so the
        # printed nested form is located by the `---` records
        recs = out.split(b"---\n")[1:]
        if rc != 0 or len(recs) != len(chunk):
            vd.observe("cli string rendering failed", {"rc": rc, "n": len(recs), "expected": len(chunk)})
            continue
        for s, rec in zip(chunk, recs):
            # first line of the record is the nested rendering: [ "...." ]
            line = rec.split(b"\n", 1)[0]
            if not (line.startswith(b"[") and line.endswith(b"]")):
                # a raw newline inside the quoted form would already be a defect
                vd.observe("string %r prints a multi-line quoted form" % s, {"record": rec[:80].decode("latin-1")})
                continue
            printed[s] = line
            cmds.append("\t".join(["run", str(len(cmds)), "max=5", zw.hexq(line + b" elem")]))
            meta.append(s)
    res = zw.run_driver(drv, cmds, wd, tag="reread")
    byid = {r.get("id"): r for r in res}
    by_text = {}
    for i, s in enumerate(meta):
        vd.cov["evaluations"] += 1
        r = byid.get(str(i))
        txt = printed[s]
        ok = (r and r.get("status") == "ok" and len(r["results"]) == 1 and r["results"][0][-1]["t"] == "str"
              and binascii.unhexlify(r["results"][0][-1]["hex"]) == s)
        if not ok:
            # key by the byte that the rendering gets wrong
            cls = "other"
            for b, name in ((34, "quote"), (37, "percent"), (0, "NUL")):
                if b in s:
                    cls = name; break
            else:
                if any(c < 16 and c not in (7, 8, 9, 10, 11, 12, 13) for c in s):
                    cls = "control byte below 0x10"
                elif any(c >= 128 for c in s):
                    cls = "high byte"
            vd.observe("string with %s does not read back: %r" % (cls, s), {"bytes": list(s), "printed": txt.decode("latin-1"),
                                                                             "reread": r})
        if txt in by_text and by_text[txt] != s:
            vd.observe("two strings print alike: %r and %r" % (by_text[txt], s), {"printed": txt.decode("latin-1")})
        by_text[txt] = s
    vd.cov["distinct_nontrivial"] = len([s for s in meta if any(c in (0, 34, 37, 92) or c < 32 or c > 126 for c in s)])
    # 3. integers: every arithmetic domain, boundary and random values, full rendering and %d %x %o %b
    vals = sorted(set([0, 1, 2, 7, 8, 9, 10, 15, 16, 255, 256, 2**31, 2**32 - 1, 2**63 - 1, 2**63, 2**64 - 1]
                      + [-1, -2, -8, -255, -2**31, -2**63 + 1, -2**63]
                      + [rng.getrandbits(64) for _ in range(40)] + [-rng.getrandbits(62) for _ in range(20)]))
    icmds, imeta = [], []
    for v in vals:
        for dom in ("dec", "hex", "oct", "bin"):
            icmds.append("\t".join(["run", str(len(icmds)), "max=5", zw.hexq('%d %s "%%s"' % (v, dom))])); imeta.append((v, dom, "%s"))
        icmds.append("\t".join(["run", str(len(icmds)), "max=5", zw.hexq('%d "%%d|%%x|%%o|%%b"' % v if False else '%d dup dup dup "%%d|%%x|%%o|%%b"' % v)])); imeta.append((v, None, "fmt"))
    ires = zw.run_driver(drv, icmds, wd, tag="ints")
    ibyid = {r.get("id"): r for r in ires}
    recmds, remeta = [], []
    for i, (v, dom, kind) in enumerate(imeta):
        r = ibyid.get(str(i))
        if not r or r.get("status") != "ok" or not r["results"]:
            vd.observe("integer %d does not render (%s)" % (v, dom or kind), {"observed": r}); continue
        txt = binascii.unhexlify(r["results"][0][-1]["hex"]).decode()
        parts = txt.split("|") if kind == "fmt" else [txt]
        doms = ["dec", "hex", "oct", "bin"] if kind == "fmt" else [dom]
        for t, d in zip(parts, doms):
            recmds.append("\t".join(["run", str(len(recmds)), "max=5", zw.hexq(t)])); remeta.append((v, d, t, kind))
    rres = zw.run_driver(drv, recmds, wd, tag="intre")
    rbyid = {r.get("id"): r for r in rres}
    for i, (v, d, t, kind) in enumerate(remeta):
        vd.cov["evaluations"] += 1
        r = rbyid.get(str(i))
        ok = r and r.get("status") == "ok" and len(r["results"]) == 1 and r["results"][0][-1]["t"] == "cst"
        got = r["results"][0][-1] if ok else None
        if not ok or int(got["v"]) != v or got["dom"] != d:
            if v == 0 and d != "dec" and ok and int(got["v"]) == 0:
                key = "zero in a non-decimal domain prints as a bare 0"
            else:
                key = "integer %d in %s prints `%s' (%s)" % (v, d, t, kind)
            vd.observe(key, {"value": v, "domain": d, "printed": t, "reread": r})
    # 3b. sequences: one stream renders all elements (tla/Render.tla (c)); each element must look as it looks alone
    els = [(v, d) for v in (8, 16, 255, -255) for d in ("dec", "hex", "oct", "bin")]
    one = lambda e: "%d %s" % e
    scmds, smeta = [], []
    for e in els:
        scmds.append("\t".join(["run", str(len(scmds)), "max=5", zw.hexq('%s "%%s"' % one(e))])); smeta.append(("alone", (e,)))
    combos = list(itertools.product(els, repeat=2)) + rng.sample(list(itertools.product(els, repeat=3)), 300)
    for c in combos:
        scmds.append("\t".join(["run", str(len(scmds)), "max=5", zw.hexq('[%s] "%%s"' % ", ".join(one(e) for e in c))])); smeta.append(("seq", c))
        if len(c) == 2:
            scmds.append("\t".join(["run", str(len(scmds)), "max=5", zw.hexq('[[%s], %s] "%%s"' % (one(c[0]), one(c[1])))])); smeta.append(("nested", c))
            scmds.append("\t".join(["run", str(len(scmds)), "max=5", zw.hexq('%s %s "%%s %%s"' % (one(c[0]), one(c[1])))])); smeta.append(("two", c))
    sres = zw.run_driver(drv, scmds, wd, tag="seqs")
    sbyid = {r.get("id"): r for r in sres}
    alone = {}
    def text(i):
        r = sbyid.get(str(i))
        if not r or r.get("status") != "ok" or not r["results"]:
            return None
        return binascii.unhexlify(r["results"][0][-1]["hex"]).decode()
    for i, (kind, c) in enumerate(smeta):
        vd.cov["evaluations"] += 1
        t = text(i)
        if kind == "alone":
            alone[c[0]] = t
            continue
        if any(alone.get(e) is None for e in c):
            continue
        a = [alone[e] for e in c]
        want = {"seq": "[" + ", ".join(a) + "]", "nested": "[[%s], %s]" % (a[0], a[-1]), "two": " ".join(a)}[kind]
        if t != want:
            vd.observe("sequence rendering is not the composition of its elements' renderings: %s of %s" % (kind, " ; ".join(one(e) for e in c)),
                       {"expected": want, "observed": t})
    # 3c. integers that come from the input and carry a domain of their own (offsets, addresses, line numbers,
    # sizes): %d %x %o %b and `value' give the radix asked for, whatever the domain shows by default, and the
    # default form reads back as an equal value
    import dwarfchk as D
    tests = os.path.join(common.REPO, "tests")
    SRC = ["entry offset", "entry low", "entry high", "symbol address", "symbol size", "entry @AT_decl_line", "entry @AT_byte_size",
           "unit offset", "abbrev offset", "abbrev code", "entry @AT_location elem offset", "entry attribute offset",
           "entry @AT_data_member_location", "entry @AT_upper_bound", "entry address low", "entry @AT_high_pc", "entry @AT_language value"]
    djobs = []
    for f in ("twocus", "a1.out", "nontrivial-types.o"):
        for src in SRC:
            djobs.append((os.path.join(tests, f), src + ' (|X| [X "%d", X "%x", X "%o", X "%b", X "%s", X value "%s"] X value)', False))
    seen, dcmds, dmeta = set(), [], []
    for (f, q, _), rec in zip(djobs, D.run_queries(drv, djobs, wd, "domint")):
        if not rec or rec.get("status") != "ok":
            continue
        for st in rec["results"]:
            if st[-1]["t"] != "cst" or st[-2]["t"] != "seq":
                continue
            v = int(st[-1]["v"])
            texts = [binascii.unhexlify(e["hex"]).decode() for e in st[-2]["v"]]
            if (q, v) in seen or len([1 for (qq, _) in seen if qq == q]) >= 40:
                continue
            seen.add((q, v))
            for t, d in zip(texts, ["dec", "hex", "oct", "bin", None, "dec"]):
                dcmds.append("\t".join(["run", str(len(dcmds)), "max=5", zw.hexq(t)])); dmeta.append((v, d, t, q, os.path.basename(f)))
    dbyid = {r.get("id"): r for r in zw.run_driver(drv, dcmds, wd, tag="domre")}
    for i, (v, d, t, q, f) in enumerate(dmeta):
        vd.cov["evaluations"] += 1
        r = dbyid.get(str(i))
        ok = r and r.get("status") == "ok" and len(r["results"]) == 1 and r["results"][0][-1]["t"] == "cst"
        got = r["results"][0][-1] if ok else None
        if not ok or int(got["v"]) != v or (d and got["dom"] != d):
            if v == 0 and d not in (None, "dec") and ok and int(got["v"]) == 0:
                key = "zero in a non-decimal domain prints as a bare 0"
            else:
                key = "integer %d from `%s' prints `%s' where %s was asked for" % (v, q.split(" (|X|")[0], t, d or "its own form")
            vd.observe(key, {"value": v, "asked": d, "printed": t, "reread": r, "file": f, "query": q})
    vd.notes["domain_integers"] = len(dmeta)
    # 4. named constants: value vs the headers, rendering read back as a word, short aliases
    wr = zw.run_driver(drv, ["words\tw\t-\t00"], wd, tag="words")
    words = wr[0]["words"]
    H = dict(headers.elf_constants()); H.update(headers.dwarf_constants())
    names = [w for w in words if re.match(r"^(DW_|T_|STT_|STB_|STV_)", w)]
    ccmds = []
    for w in names:
        ccmds.append("\t".join(["run", str(len(ccmds)), "max=5", zw.hexq('%s [value, "%%s"]' % w)]))
    cres = zw.run_driver(drv, ccmds, wd, tag="consts")
    cbyid = {r.get("id"): r for r in cres}
    recmds2, remeta2 = [], []
    checked = 0
    for i, w in enumerate(names):
        r = cbyid.get(str(i))
        vd.cov["evaluations"] += 1
        if not r or r.get("status") != "ok" or len(r["results"]) != 1:
            vd.observe("constant %s does not evaluate" % w, {"observed": r}); continue
        stk = r["results"][0]
        cst, seq = stk[0], stk[1]
        val = int(seq["v"][0]["v"])
        shown = binascii.unhexlify(seq["v"][1]["hex"]).decode()
        if w in H:
            checked += 1
            if H[w] != val:
                vd.observe("constant %s has value %d, the header says %d" % (w, val, H[w]), {"observed": r})
        if shown != w:
            # legitimate only if the headers give that number several names of the same family
            fam = re.match(r"^[A-Z]+_[A-Z]+_|^T_|^ST[TBV]_", w)
            same = [n for n, x in H.items() if x == val and fam and n.startswith(fam.group(0))]
            if shown not in same and not w.startswith("T_"):
                vd.observe("constant %s renders as %s" % (w, shown), {"same_number": same[:8]})
        recmds2.append("\t".join(["run", str(len(recmds2)), "max=5", zw.hexq("(%s == %s)" % (w, shown))])); remeta2.append((w, shown))
        m = re.match(r"^DW_(TAG|AT|FORM|OP)_(.*)$", w)
        if m:
            short = "%s_%s" % (m.group(1), m.group(2))
            for pre in (["?", "!"] + (["@"] if m.group(1) == "AT" else [])):
                if pre + short not in words or pre + w not in words:
                    vd.observe("short alias %s%s missing" % (pre, short), {})
    r2 = zw.run_driver(drv, recmds2, wd, tag="constre")
    for (w, shown), r in zip(remeta2, sorted([x for x in r2 if "id" in x], key=lambda x: int(x["id"]))):
        vd.cov["evaluations"] += 1
        if r.get("status") != "ok" or len(r.get("results", [])) != 1:
            vd.observe("constant %s: its rendering `%s' does not denote an equal constant" % (w, shown), {"observed": r})
    # short aliases denote the same test: on a sample file
    tests = os.path.join(common.REPO, "tests")
    acmds = []
    tags = [w for w in names if w.startswith("DW_TAG_")][:40] if tier == "quick" else [w for w in names if w.startswith("DW_TAG_")]
    for w in tags:
        acmds.append("\t".join(["run", str(len(acmds)), "max=500", zw.hexq("(|D| [D entry ?%s offset] [D entry ?%s offset] ?eq [D entry (label == %s) offset] ?eq)" % (w, w[3:], w)),
                                os.path.join(tests, "nontrivial-types.o")]))
    ats = [w for w in names if w.startswith("DW_AT_")][:40] if tier == "quick" else [w for w in names if w.startswith("DW_AT_")]
    for w in ats:
        acmds.append("\t".join(["run", str(len(acmds)), "max=500", zw.hexq("(|D| [D entry @%s] [D entry @%s] ?eq [D entry ?%s offset] [D entry ?%s offset] ?eq)" % (w, w[3:], w, w[3:])),
                                os.path.join(tests, "nontrivial-types.o")]))
    ar = zw.run_driver(drv, acmds, wd, tag="alias")
    for r, w in zip(sorted([x for x in ar if "id" in x], key=lambda x: int(x["id"])), tags + ats):
        vd.cov["evaluations"] += 1
        if r.get("status") != "ok" or len(r.get("results", [])) != 1:
            vd.observe("short alias of %s differs from the long form" % w, {"observed": r})
    vd.cov["traces_validated_against_impl"] = len(meta)
    vd.sample({"string_bytes": list(meta[5]), "printed": printed[meta[5]].decode("latin-1")})
    vd.sample({"constants_checked_against_headers": checked, "vocabulary_constants": len(names)})
    return vd.finish(rule="tla/Render.tla: Unescape(Escape(s)) = s and Escape injective for all byte strings up to length 3 over "
                     "{NUL, 0x01, TAB, quote, %%, 0, 1, backslash, a, n, x, 0x80}; on the implementation the same strings plus all "
                     "single bytes, byte+digit pairs and random strings are printed nested by the CLI and read back by the library; "
                     "boundary/random integers in dec/hex/oct/bin via %%s and %%d %%x %%o %%b read back with equal value and domain; "
                     "sequences (pairs, nested, sampled triples) of constants of mixed domains render as the composition of their elements' own renderings (one shared stream: Render.tla (c)); "
                     "all %d named constants of the vocabulary: value vs /usr/include/dwarf.h and elf.h, rendering read back as a "
                     "word, short aliases; non-trivial = strings containing bytes that need escaping" % len(names))

def replay(path):
    print(open(path).read())
    return 0
