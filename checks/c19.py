"""C19: the command line honours its grep-like contract."""
import os, sys, json, random, subprocess, shutil
import common, tlc, zw

PID = "C19"
QUERY = {"cerr": "(", "r0": "?(1 2 ?eq)", "r1": "", "r3": "(10, 20, 30)", "err0": "drop drop drop drop drop",
         "err1": "[7, 8] elem (?0 || drop drop drop drop drop drop)"}


# what the model calls the literal argument "x": texts that a string literal would read differently
LITS = ["x", "100%%", "%s", "a%( 1 %)b", "load: %d%%", "back\\slash", 'q"uote', "%", "tail%"]


def lit_of(idx):
    return LITS[idx % len(LITS)]


def zw_quote(sv):
    return '"' + sv.replace("\\", "\\\\").replace('"', '\\"').replace("%", "%%") + '"'


def run_cli(dw, cfg, wd, files, variant, idx):
    argv = [dw]
    for f in cfg["flags"]:
        argv.append("-" + f)
    q = QUERY[cfg["qc"]]
    stdin = None
    qsrc = variant % 3
    for a in cfg["args"]:
        if a["lit"]:
            if variant >= 3:
                argv += ["--a", zw_quote(lit_of(idx))]       # -a X  ==  --a '"X"' (X spelled as a string literal)
            else:
                argv += ["-a", lit_of(idx)]
        elif a["vals"]:
            argv += ["--a", "(" + ", ".join('"%s"' % v for v in a["vals"]) + ")"]
        else:
            argv += ["--a", '"z" ?(1 2 ?eq)']
    post = []
    if qsrc == 0:
        argv += ["-e", q]
    elif qsrc == 1:
        qf = os.path.join(wd, "q-%d.zw" % idx)
        open(qf, "w").write(q)
        argv += ["-f", qf]
    else:
        post = ["--", q] if q.startswith("-") else [q]
        if q == "":
            argv += ["-e", q]; post = []
    argv += post + [files[f] for f in cfg["files"]]
    try:
        pr = subprocess.run(argv, stdout=subprocess.PIPE, stderr=subprocess.PIPE, timeout=30, stdin=subprocess.DEVNULL)
        return argv, pr.returncode, pr.stdout.decode("utf-8", "replace"), pr.stderr.decode("utf-8", "replace")
    except subprocess.TimeoutExpired:
        return argv, "timeout", "", ""


def run(tier):
    vd = common.Verdict(PID, tier)
    wd = common.scratch(PID)
    rng = random.Random(common.seed())
    bdir = common.build("plain")
    dw = os.path.join(bdir, "bin", "dwgrep")
    out = os.path.join(wd, "cli.ndjson")
    r = tlc.run_tlc("CliGen", constants={"OutFile": out, "PinnedCount": False, "PinnedZeroArg": False}, workers=1, timeout=1500, heap="8g")
    if not r.ok or not os.path.exists(out):
        if "ssumption" in r.out and "is false" in r.out:
            vd.observe("model:contract-sanity", {"output": r.out[-3000:]})
        raise common.ToolError("CliGen failed\n" + r.out[-2000:])
    cfgs = [json.loads(l) for l in open(out) if l.strip()]
    vd.cov["states"] = len(cfgs); vd.cov["transitions"] = len(cfgs)
    tests = os.path.join(common.REPO, "tests")
    unread = os.path.join(wd, "unreadable.o")
    shutil.copy(os.path.join(tests, "twocus"), unread)
    files = {"F1": os.path.join(tests, "twocus"), "F2": os.path.join(tests, "a1.out"),
             "BAD": os.path.join(wd, "does-not-exist"), "NONELF": os.path.join(tests, "tests.sh")}
    sel = cfgs if tier == "thorough" else rng.sample(cfgs, min(4000, len(cfgs)))
    jobs = [(i, c, rng.randrange(6)) for i, c in enumerate(sel)]
    def one(job):
        i, c, variant = job
        return job, run_cli(dw, c, wd, files, variant, i)
    nontriv = 0
    for (i, c, variant), (argv, rc, so, se) in common.parallel(one, jobs, workers=12):
        vd.cov["evaluations"] += 1
        exp = c["exp"]
        exp_out = [lit_of(i) if l == "x" else l.replace("@F1@", files["F1"]).replace("@F2@", files["F2"]) for l in exp["out"]]
        got_out = so.split("\n")[:-1] if so else []
        flags = "".join(sorted(c["flags"]))
        nvals = [len(a["vals"]) for a in c["args"]]
        key = "cli flags=-%s qc=%s files=%s args=%s" % (flags, c["qc"], ",".join(c["files"]), nvals)
        why = None
        if rc == "timeout" or (isinstance(rc, int) and rc < 0) or rc not in (0, 1, 2):
            why = "crash/timeout (rc %s)" % rc
        elif rc != exp["status"]:
            why = "exit status %s, expected %s" % (rc, exp["status"])
        elif got_out != exp_out:
            why = "stdout differs"
        elif exp["err"] == "none" and se.strip():
            why = "unexpected diagnostics on stderr"
        elif exp["err"] == "some" and not se.strip():
            why = "no diagnostic on stderr"
        if why:
            # group by what the contract sentence is about, so that known findings are keyed narrowly
            if "c" in c["flags"] and "q" in c["flags"] and c["qc"] != "cerr" and why == "stdout differs":
                key = "cli -q -c prints a count"
            elif "c" in c["flags"] and c["qc"] in ("err0", "err1") and why == "stdout differs" and "q" not in c["flags"]:
                key = "cli -c count missing when the execution fails"
            elif any(n == 0 for n in nvals) and c["qc"] != "cerr" and "crash" in why:
                key = "cli --a yielding no value crashes"
            vd.observe(key, {"argv": argv, "why": why, "expected": dict(exp, out=exp_out),
                             "observed": {"rc": rc, "stdout": got_out[:40], "stderr": se[:500]}})
        elif c["qc"] != "cerr" and len(exp_out) > 0:
            nontriv += 1
    vd.cov["distinct_nontrivial"] = nontriv
    vd.cov["traces_validated_against_impl"] = 0
    vd.sample({"config": {k: sel[0][k] for k in ("flags", "qc", "files", "args")}, "expected": sel[0]["exp"]})
    # results printed are those the library yields: real queries on real files vs the library driver
    qs = ["entry ?root name", "entry (pos < 3) offset", "unit root (|A| A name A offset)", "entry ?root [child offset]"]
    zcmds = ["\t".join(["run", str(i), "max=100", zw.hexq(q), files["F1"]]) for i, q in enumerate(qs)]
    zres = zw.run_driver(os.path.join(bdir, "bin", "zwdrv"), zcmds, wd, tag="lib")
    for q, zr in zip(qs, sorted(zres, key=lambda x: int(x["id"]))):
        pr = subprocess.run([dw, "-c", "-e", q, files["F1"]], stdout=subprocess.PIPE, stderr=subprocess.PIPE, timeout=60)
        vd.cov["evaluations"] += 1
        if pr.stdout.decode().strip() != str(len(zr.get("results", []))):
            vd.observe("cli count vs library `%s'" % q, {"cli": pr.stdout.decode(), "library": len(zr.get("results", []))})
    return vd.finish(rule="tla/Cli.tla: the contract as a function of (flag subset, query class, file list, argument list); "
                     "TLC enumerates all %d configurations with the expected status/stdout/stderr class; each sampled "
                     "configuration is run on the freshly linked binary with the query given by -e / -f / positionally and "
                     "literal arguments as -a X or --a '\"X\"'; non-trivial = configurations with non-empty expected stdout"
                     % len(cfgs), exhaustive=(tier == "thorough"))

def replay(path):
    print(open(path).read())
    return 0
