"""C03: names resolve lexically."""
import os, sys, json
import common, engine, zw

PID = "C03"

def run(tier):
    vd = common.Verdict(PID, tier)
    wd = common.scratch(PID)
    bdir = common.build("plain")
    r = engine.model_check(vd, "names", 2 if tier == "quick" else 3)
    if r.violated:
        vd.observe("model:names:" + r.violated, {"tlc_invariant": r.violated, "output": r.out[-6000:]})
    rb = engine.model_check(vd, "blocks", 4 if tier == "quick" else 5)
    if rb.violated:
        vd.observe("model:blocks:" + rb.violated, {"tlc_invariant": rb.violated, "output": rb.out[-6000:]})
    vecs, st = engine.generate("names", 3, 16, wd)
    engine.replay(vd, vecs, bdir, wd, PID, check_illformed=True)
    vecs2, st2 = engine.generate("blocks", 5, 16, wd)
    engine.replay(vd, vecs2, bdir, wd, PID, check_illformed=True)
    # who sees which binding: operands of infix operators, ALT / OR branches, sub-expressions and captures
    # that bind and read the same two names
    rs = engine.model_check(vd, "scopes", 2 if tier == "quick" else 3)
    if rs.violated:
        vd.observe("model:scopes:" + rs.violated, {"tlc_invariant": rs.violated, "output": rs.out[-6000:]})
    # self-test: with the branches of an ALT built in the enclosing scope (the build before fix 0e4c750) well-formedness
    # and the build-time errors of the mechanism layer disagree on `let' under a postfix `?'
    import tlc
    mt = tlc.run_tlc("Progs", constants={"MaxW": 3, "Shard": 0, "NShards": 1, "OutFile": os.path.join(wd, "mutant.ndjson"), "Family": "scopes",
                                         "PinnedMerge": False, "WithNoSimp": False, "Light": False, "WithTwin": False},
                     overrides={"AltSharesScope": "Yes"}, workers=1, timeout=900, heap="6g")
    if "is false" not in mt.out:
        raise common.ToolError("EngineOps.tla: AltSharesScope is not caught\n" + mt.out[-1500:])
    vecs3, st3 = engine.generate("scopes", 3, 16, wd)        # (weight 4: more than 25 minutes of generation since opt and fmt3 joined the family)
    engine.replay(vd, vecs3, bdir, wd, PID, check_illformed=True)
    # a binder that carries the name of a builtin word (length), read directly and from nested blocks
    rw = engine.model_check(vd, "shadow", 3)
    if rw.violated:
        vd.observe("model:shadow:" + rw.violated, {"tlc_invariant": rw.violated, "output": rw.out[-6000:]})
    vecs4, st4 = engine.generate("shadow", 4 if tier == "quick" else 5, 16, wd)
    engine.replay(vd, vecs4, bdir, wd, PID, check_illformed=False)
    # blocks with parameters nested in blocks: the captured names of a nested block come from its enclosing
    # block's own scopes (X, Y) and through that block's environment (A), used in every order
    ru = engine.model_check(vd, "upvals", 4)
    if ru.violated:
        vd.observe("model:upvals:" + ru.violated, {"tlc_invariant": ru.violated, "output": ru.out[-6000:]})
    vecs5, st5 = engine.generate("upvals", 5, 16, wd)
    engine.replay(vd, vecs5, bdir, wd, PID, check_illformed=True)
    return vd.finish(rule="programs of family 'names' (let with 1-2 ids, (|A|..), [|A|..], ?(|A|..), blocks "
                     "bound to names and applied, closures, ALT/OR) up to weight 3; well-formed ones compared "
                     "with Zw!Den (environments), ill-formed ones (unbound / rebound names) must be rejected "
                     "at compile time with the corresponding message; family 'shadow': binders named like the builtin word `length' (let, scope), read directly and through one or two levels of blocks (weight 4); family 'scopes': infix operators, ALT, OR, sub-expressions and captures whose operands bind and read the names A and B (weight 3); family 'upvals': blocks with parameters ({|X| ..} apply) nested in blocks, the nested block capturing names bound by its enclosing block next to names that reach it through the enclosing block's environment, in every order of first use (weight 5); family 'blocks': nested blocks up to weight 5 capturing the up-values A (the input) and B at several depths, applied directly or through a name; tla/Engine.tla (op_lex_closure, op_apply with its private state buffer and rendezvous, op_upread transcribed in tla/EngineOps.tla) model-checked against Zw!Den on both families for every pull count and abandonment point, and the exact pull sequence of every legal program compared with the implementation", exhaustive=True, extra={"family": st, "blocks": st2, "scopes": st3, "shadow": st4, "upvals": st5})

def replay(path):
    import c01
    return c01.replay(path)
