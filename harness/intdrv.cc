// intdrv: drives the working tree's int.cc (mpz_class) directly.
//   intdrv FILE   lines:  OP \t A \t SA \t B \t SB     (A, B: 64-bit patterns as unsigned
//                 decimals; SA, SB: 1 = signed representation; OP: add sub mul div mod neg lt)
//   prints        ok \t U \t S      or      err \t message      (lt: ok \t 0|1 \t 0)
#include <iostream>
#include <fstream>
#include <string>
#include <stdexcept>
#include <cassert>
#include <cstdint>
#include "int.hh"
#include "drvutil.hh"

int
main (int argc, char **argv)
{
  if (argc < 2)
    return 2;
  std::ifstream in (argv[1]);
  std::string line;
  while (std::getline (in, line))
    {
      auto w = drv::split (line, '\t');
      if (w.size () < 5)
	continue;
      mpz_class a {std::stoull (w[1]), w[2] == "1" ? signedness::sign : signedness::unsign};
      mpz_class b {std::stoull (w[3]), w[4] == "1" ? signedness::sign : signedness::unsign};
      try
	{
	  if (w[0] == "lt")
	    {
	      std::cout << "ok\t" << (a < b ? 1 : 0) << "\t0\n";
	      continue;
	    }
	  mpz_class r = w[0] == "add" ? a + b
	    : w[0] == "sub" ? a - b
	    : w[0] == "mul" ? a * b
	    : w[0] == "div" ? a / b
	    : w[0] == "mod" ? a % b
	    : -a;
	  std::cout << "ok\t" << r.m_u << "\t" << (r.m_sign == signedness::sign ? 1 : 0) << "\n";
	}
      catch (std::exception const &e)
	{
	  std::cout << "err\t" << e.what () << "\n";
	}
    }
  return 0;
}
