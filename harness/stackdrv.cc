// stackdrv: replays push/pop/drop histories on the working tree's `stack` and prints the
// cached profile word next to the one recomputed from the stored values.
//   stackdrv FILE     lines: comma separated ops:  u<code>  (push a value of type code)
//                                                  o        (pop)   d<n> (drop n)   c (copy, continue on the copy)
//   output per line:  profile after every op, space separated, as  cached:recomputed
#include <iostream>
#include <fstream>
#include <sstream>
#include <string>
#include "stack.hh"
#include "value-cst.hh"
#include "value-str.hh"
#include "value-seq.hh"
#include "value-closure.hh"
#include "drvutil.hh"

static std::unique_ptr <value>
mk (int kind)
{
  switch (kind)
    {
    case 1: return std::make_unique <value_str> ("s", 0);
    case 2: return std::make_unique <value_seq> (value_seq::seq_t {}, 0);
    default: return std::make_unique <value_cst> (constant {1, &dec_constant_dom}, 0);
    }
}

static uint32_t
recompute (stack const &s)
{
  uint32_t p = 0;
  for (unsigned d = 0; d < 4 && d < s.size (); ++d)
    p |= ((uint32_t) s.get (d).get_type ().code ()) << (8 * d);
  return p;
}

int
main (int argc, char **argv)
{
  if (argc < 2)
    return 2;
  std::ifstream in (argv[1]);
  std::string line;
  while (std::getline (in, line))
    {
      auto st = std::make_unique <stack> ();
      std::ostringstream os;
      for (auto const &op: drv::split (line, ','))
	{
	  if (op.empty ())
	    continue;
	  try
	    {
	      if (op[0] == 'u') st->push (mk (std::stoi (op.substr (1))));
	      else if (op[0] == 'o') st->pop ();
	      else if (op[0] == 'd') st->drop (std::stoi (op.substr (1)));
	      else if (op[0] == 'c') st = std::make_unique <stack> (*st);
	    }
	  catch (std::exception const &e)
	    {
	      os << "E ";
	      continue;
	    }
	  os << st->profile () << ":" << recompute (*st) << " ";
	}
      std::cout << os.str () << "\n";
    }
  return 0;
}
