// covdrv: drives the working tree's coverage.cc (linked alone, like test-coverage).
//
//   covdrv vec FILE        one vector per line: BASE \t s:l,s:l,... \t OP \t S \t L
//                          (addresses relative to BASE, BASE is a 64-bit decimal);
//                          prints  ret \t s:l,s:l,...   per line
//   covdrv rand SEED STEPS BASE N TRACEFILE
//                          random add/remove/query sequence over [BASE, BASE+N],
//                          recorded as ndjson with BASE-relative numbers
#include <iostream>
#include <fstream>
#include <sstream>
#include <string>
#include <vector>
#include <random>
#include <cstdint>
#include "coverage.hh"
#include "drvutil.hh"

static std::string
show (coverage const &c, uint64_t base)
{
  std::ostringstream os;
  for (size_t i = 0; i < c.size (); ++i)
    {
      if (i) os << ",";
      os << (c.at (i).start - base) << ":" << c.at (i).length;
    }
  return os.str ();
}

static std::string
showj (coverage const &c, uint64_t base)
{
  std::ostringstream os;
  os << "[";
  for (size_t i = 0; i < c.size (); ++i)
    {
      if (i) os << ",";
      os << "[" << (c.at (i).start - base) << "," << c.at (i).length << "]";
    }
  os << "]";
  return os.str ();
}

int
main (int argc, char **argv)
{
  if (argc >= 3 && std::string (argv[1]) == "vec")
    {
      std::ifstream in (argv[2]);
      std::string line;
      while (std::getline (in, line))
	{
	  auto w = drv::split (line, '\t');
	  if (w.size () < 5)
	    continue;
	  uint64_t base = std::stoull (w[0]);
	  coverage c;
	  if (! w[1].empty ())
	    for (auto const &r: drv::split (w[1], ','))
	      {
		auto p = drv::split (r, ':');
		c.add (base + std::stoull (p[0]), std::stoull (p[1]));
	      }
	  uint64_t s = base + std::stoull (w[3]);
	  uint64_t l = std::stoull (w[4]);
	  std::string const &op = w[2];
	  if (op == "add")
	    {
	      c.add (s, l);
	      std::cout << "-\t" << show (c, base) << "\n";
	    }
	  else if (op == "remove")
	    {
	      bool r = c.remove (s, l);
	      std::cout << (r ? "1" : "0") << "\t" << show (c, base) << "\n";
	    }
	  else if (op == "is_covered")
	    std::cout << (c.is_covered (s, l) ? "1" : "0") << "\t" << show (c, base) << "\n";
	  else if (op == "is_overlap")
	    std::cout << (c.is_overlap (s, l) ? "1" : "0") << "\t" << show (c, base) << "\n";
	  else if (op == "intersect")
	    std::cout << "-\t" << show (c.intersect (s, l), base) << "\n";
	  else if (op == "build")
	    std::cout << "-\t" << show (c, base) << "\n";
	}
      return 0;
    }

  if (argc >= 7 && std::string (argv[1]) == "rand")
    {
      std::mt19937_64 rng (std::stoull (argv[2]));
      size_t steps = std::stoul (argv[3]);
      uint64_t base = std::stoull (argv[4]);
      unsigned n = std::stoul (argv[5]);
      std::ofstream out (argv[6]);
      coverage c;
      out << "{\"e\":\"reset\",\"s\":0,\"l\":0,\"vec\":[],\"ret\":false}\n";
      for (size_t i = 0; i < steps; ++i)
	{
	  unsigned s = rng () % (n + 1);
	  unsigned l = rng () % (n + 1 - s + 1);
	  if (s + l > n)
	    l = n - s;
	  unsigned k = rng () % 10;
	  if (k < 4)
	    {
	      c.add (base + s, l);
	      out << "{\"e\":\"add\",\"s\":" << s << ",\"l\":" << l << ",\"vec\":"
		  << showj (c, base) << ",\"ret\":false}\n";
	    }
	  else if (k < 8)
	    {
	      bool r = c.remove (base + s, l);
	      out << "{\"e\":\"remove\",\"s\":" << s << ",\"l\":" << l << ",\"vec\":"
		  << showj (c, base) << ",\"ret\":" << (r ? "true" : "false") << "}\n";
	    }
	  else if (k == 8)
	    {
	      bool r1 = l > 0 ? c.is_covered (base + s, l) : false;
	      out << "{\"e\":\"is_covered\",\"s\":" << s << ",\"l\":" << l << ",\"vec\":"
		  << showj (c, base) << ",\"ret\":" << (r1 ? "true" : "false") << "}\n";
	    }
	  else
	    {
	      coverage x = c.intersect (base + s, l);
	      out << "{\"e\":\"intersect\",\"s\":" << s << ",\"l\":" << l << ",\"vec\":"
		  << showj (c, base) << ",\"ret\":false,\"res\":" << showj (x, base) << "}\n";
	    }
	}
      return 0;
    }

  std::cerr << "usage: covdrv vec FILE | rand SEED STEPS BASE N TRACE\n";
  return 2;
}
