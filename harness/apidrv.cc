// apidrv: replays call sequences of tla/ApiObj.tla on the C API.  Uses nothing but libzwerg.h.
//
// Usage: apidrv CMDFILE
// One behaviour per line:  ID <TAB> op;op;...   with op = name,arg,arg...
//   i64,PAYLOAD,DOM,POS  u64,PAYLOAD,DOM,POS  str,HEX,POS  clone,V,POS  fmt,V  vdestroy,V  snew
//   push,S,V  take,S,V  sdestroy,S  exec,HEXQUERY,S
// V and S are the identities of the model (1-based, in order of creation).  After every call one line is
// printed: {"id":ID,"step":N,"ok":BOOL,"err":..., "vals":{id:desc...}, "stks":{k:[desc...]}} -- values
// as the public accessors show them.  At the end everything still alive is destroyed.
#include <cstdio>
#include <cstdlib>
#include <cstring>
#include <cstdint>
#include <cinttypes>
#include <string>
#include <vector>
#include <map>
#include <fstream>
#include <sstream>
#include <iostream>

#include "libzwerg.h"

static std::vector <std::string>
split (std::string const &s, char c)
{
  std::vector <std::string> r;
  std::string cur;
  for (char ch: s)
    if (ch == c) { r.push_back (cur); cur.clear (); }
    else cur.push_back (ch);
  r.push_back (cur);
  return r;
}

static std::string
unhex (std::string const &h)
{
  std::string r;
  for (size_t i = 0; i + 1 < h.size (); i += 2)
    r.push_back ((char) std::stoi (h.substr (i, 2), nullptr, 16));
  return r;
}

static std::string
hex (char const *p, size_t n)
{
  static char const *d = "0123456789abcdef";
  std::string r;
  for (size_t i = 0; i < n; ++i)
    {
      r.push_back (d[(unsigned char) p[i] >> 4]);
      r.push_back (d[(unsigned char) p[i] & 15]);
    }
  return r;
}

static std::string
describe (zw_value const *v)
{
  std::ostringstream os;
  if (zw_value_is_const (v))
    {
      bool sg = zw_value_const_is_signed (v);
      os << "{\"k\":\"cst\",\"sgn\":" << (sg ? "true" : "false") << ",\"v\":\"";
      if (sg) os << zw_value_const_i64 (v); else os << zw_value_const_u64 (v);
      // (zw_value_const_dom is declared in libzwerg.h but the library does not define it: the domain shows
      // only in the rendering)
      zw_error *e = nullptr;
      zw_value *txt = zw_value_const_format (v, &e);
      os << "\",\"txt\":\"";
      if (txt != nullptr)
	{
	  size_t len = 0;
	  char const *p = zw_value_str_str (txt, &len);
	  os << hex (p, len);
	  zw_value_destroy (txt);
	}
      else if (e != nullptr)
	zw_error_destroy (e);
      os << "\",\"pos\":" << zw_value_pos (v) << "}";
    }
  else if (zw_value_is_str (v))
    {
      size_t len = 0;
      char const *p = zw_value_str_str (v, &len);
      os << "{\"k\":\"str\",\"hex\":\"" << hex (p, len) << "\",\"pos\":" << zw_value_pos (v) << "}";
    }
  else
    os << "{\"k\":\"other\",\"pos\":" << zw_value_pos (v) << "}";
  return os.str ();
}

static zw_cdom const *
dom_of (std::string const &d)
{
  if (d == "hex") return zw_cdom_hex ();
  if (d == "oct") return zw_cdom_oct ();
  if (d == "bin") return zw_cdom_bin ();
  if (d == "bool") return zw_cdom_bool ();
  return zw_cdom_dec ();
}

int
main (int argc, char **argv)
{
  if (argc < 2)
    return 2;
  zw_error *err = nullptr;
  zw_vocabulary *voc = zw_vocabulary_init (&err);
  if (voc == nullptr || ! zw_vocabulary_add (voc, zw_vocabulary_core (&err), &err))
    return 2;

  std::ifstream in (argv[1]);
  std::string line;
  while (std::getline (in, line))
    {
      auto w = split (line, '\t');
      if (w.size () < 2)
	continue;
      std::string id = w[0];
      // model identity -> object.  A value owned by a stack is found through the stack.
      std::map <size_t, zw_value *> cvals;		// the client's
      std::map <size_t, std::pair <size_t, size_t>> svals;	// on a stack: (stack, index from the bottom)
      std::map <size_t, zw_stack *> stks;
      std::map <size_t, std::vector <size_t>> items;
      size_t nvals = 0, nstks = 0, step = 0;
      auto lookup = [&] (size_t v) -> zw_value const * {
	auto it = cvals.find (v);
	if (it != cvals.end ())
	  return it->second;
	auto jt = svals.find (v);
	if (jt == svals.end ())
	  return nullptr;
	zw_stack *s = stks[jt->second.first];
	return zw_stack_at (s, zw_stack_depth (s) - 1 - jt->second.second);
      };

      for (auto const &ops: split (w[1], ';'))
	{
	  auto a = split (ops, ',');
	  ++step;
	  bool ok = true;
	  std::string contract;
	  err = nullptr;
	  auto got_value = [&] (zw_value *v) {
	    if (v == nullptr) { ok = false; if (err == nullptr) contract = "NULL without an error"; }
	    else { if (err != nullptr) contract = "a value and an error"; cvals[++nvals] = v; }
	  };
	  auto got_bool = [&] (bool b) {
	    if (! b) { ok = false; if (err == nullptr) contract = "false without an error"; }
	    else if (err != nullptr) contract = "true and an error";
	  };
	  if (a[0] == "i64" || a[0] == "u64")
	    {
	      size_t pos = std::stoul (a[3]);
	      if (a[0] == "i64")
		{
		  int64_t x = a[1] == "imin" ? INT64_MIN : a[1] == "imax" ? INT64_MAX : std::stoll (a[1]);
		  got_value (zw_value_init_const_i64 (x, dom_of (a[2]), pos, &err));
		}
	      else
		{
		  uint64_t x = a[1] == "umax" ? UINT64_MAX : a[1] == "imax" ? (uint64_t) INT64_MAX : std::stoull (a[1]);
		  got_value (zw_value_init_const_u64 (x, dom_of (a[2]), pos, &err));
		}
	    }
	  else if (a[0] == "str")
	    {
	      std::string s = unhex (a[1]);
	      got_value (zw_value_init_str_len (s.data (), s.size (), std::stoul (a[2]), &err));
	    }
	  else if (a[0] == "clone")
	    got_value (zw_value_clone (lookup (std::stoul (a[1])), std::stoul (a[2]), &err));
	  else if (a[0] == "fmt")
	    got_value (zw_value_const_format (lookup (std::stoul (a[1])), &err));
	  else if (a[0] == "vdestroy")
	    {
	      size_t v = std::stoul (a[1]);
	      zw_value_destroy (cvals[v]);
	      cvals.erase (v);
	    }
	  else if (a[0] == "snew")
	    {
	      zw_stack *s = zw_stack_init (&err);
	      if (s == nullptr) { ok = false; if (err == nullptr) contract = "NULL without an error"; }
	      else stks[++nstks] = s;
	    }
	  else if (a[0] == "push")
	    {
	      size_t s = std::stoul (a[1]);
	      bool r = zw_stack_push (stks[s], lookup (std::stoul (a[2])), &err);
	      got_bool (r);
	      if (r) { items[s].push_back (++nvals); svals[nvals] = {s, items[s].size () - 1}; }
	    }
	  else if (a[0] == "take")
	    {
	      size_t s = std::stoul (a[1]), v = std::stoul (a[2]);
	      bool r = zw_stack_push_take (stks[s], cvals[v], &err);
	      got_bool (r);
	      cvals.erase (v);		// taken even on failure
	      if (r) { items[s].push_back (v); svals[v] = {s, items[s].size () - 1}; }
	    }
	  else if (a[0] == "sdestroy")
	    {
	      size_t s = std::stoul (a[1]);
	      zw_stack_destroy (stks[s]);
	      stks.erase (s);
	      for (size_t v: items[s]) svals.erase (v);
	      items.erase (s);
	    }
	  else if (a[0] == "exec")
	    {
	      std::string q = unhex (a[1]);
	      size_t s = std::stoul (a[2]);
	      zw_query *query = zw_query_parse_len (voc, q.data (), q.size (), &err);
	      if (query == nullptr) { ok = false; if (err == nullptr) contract = "NULL without an error"; }
	      else
		{
		  zw_result *res = zw_query_execute (query, stks[s], &err);
		  if (res == nullptr) { ok = false; if (err == nullptr) contract = "NULL without an error"; }
		  else
		    {
		      size_t nout = 0;
		      for (;;)
			{
			  zw_stack *out = nullptr;
			  if (! zw_result_next (res, &out, &err))
			    {
			      ok = false;
			      if (err == nullptr) contract = "false without an error";
			      break;
			    }
			  if (out == nullptr)
			    break;
			  if (nout++ == 0)
			    {
			      stks[++nstks] = out;
			      for (size_t j = 0; j < zw_stack_depth (out); ++j)
				{ items[nstks].push_back (++nvals); svals[nvals] = {nstks, j}; }
			    }
			  else
			    { contract = "more than one result"; zw_stack_destroy (out); }
			}
		      zw_result_destroy (res);
		    }
		  zw_query_destroy (query);
		}
	    }
	  // the state as the accessors show it
	  std::ostringstream os;
	  os << "{\"id\":\"" << id << "\",\"step\":" << step << ",\"ok\":" << (ok ? "true" : "false");
	  if (err != nullptr)
	    {
	      char const *m = zw_error_message (err);
	      os << ",\"err\":\"" << hex (m, strlen (m)) << "\"";
	      if (m[0] == 0) contract = "an error with an empty message";
	      zw_error_destroy (err);
	    }
	  if (! contract.empty ())
	    os << ",\"contract\":\"" << contract << "\"";
	  os << ",\"vals\":{";
	  bool first = true;
	  for (auto const &kv: cvals)
	    { os << (first ? "" : ",") << "\"" << kv.first << "\":" << describe (kv.second); first = false; }
	  os << "},\"stks\":{";
	  first = true;
	  for (auto const &kv: stks)
	    {
	      os << (first ? "" : ",") << "\"" << kv.first << "\":[";
	      first = false;
	      size_t d = zw_stack_depth (kv.second);
	      for (size_t j = 0; j < d; ++j)
		os << (j ? "," : "") << describe (zw_stack_at (kv.second, d - 1 - j));
	      os << "]";
	    }
	  os << "}}";
	  std::cout << os.str () << std::endl;
	}
      for (auto &kv: cvals) zw_value_destroy (kv.second);
      for (auto &kv: stks) zw_stack_destroy (kv.second);
    }
  zw_vocabulary_destroy (voc);
  return 0;
}
