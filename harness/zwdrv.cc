// zwdrv: replay driver for Zwerg programs.  Links the working tree's objects.
//
// Usage: zwdrv CMDFILE [START]
// CMDFILE holds one command per line, tab separated:
//   run   ID FLAGS HEXQUERY [FILE]      parse through the C API, execute, pull all
//   hist  ID FLAGS HEXQUERY SCHED HEXINPUT...   histories over result slots (C12)
//   parse ID FLAGS HEXQUERY             parse only (explicit length, guard page)
// FLAGS: comma separated: - | nosimp | raw | tree | ops | max=N | t=SECONDS | twice | share
// One JSON object per command on stdout.  A command that exceeds its time
// budget prints {"id":..,"status":"timeout"} and the process exits with 3;
// the caller resumes after that command (START = index of the first line).
#include <iostream>
#include <fstream>
#include <sstream>
#include <cstring>
#include <csignal>
#include <unistd.h>
#include <sys/mman.h>
#include <map>

#include "libzwerg.h"
#include "libzwerg-dw.h"
#include "libzwergP.hh"
#include "parser.hh"
#include "stack.hh"
#include "builtin.hh"
#include "init.hh"
#include "value-cst.hh"
#include "value-str.hh"
#include "value-seq.hh"
#include "value-closure.hh"
#include "value-dw.hh"
#include "value-aset.hh"
#include "value-symbol.hh"
#include "builtin-dw-abbrev.hh"
#include "coverage.hh"
#include "drvutil.hh"

#include <elfutils/libdw.h>
#include <dwarf.h>

using namespace drv;

static std::string cur_id;
static std::string g_rec;

#if defined (__SANITIZE_ADDRESS__)
extern "C" int __lsan_do_recoverable_leak_check (void);
# define VERIF_LEAK_CHECK() __lsan_do_recoverable_leak_check ()
#else
# define VERIF_LEAK_CHECK() 0
#endif

static void
on_alarm (int)
{
  std::string msg = "{\"id\":" + jstr (cur_id) + ",\"status\":\"timeout\"}\n";
  (void) !write (1, msg.c_str (), msg.size ());
  _exit (3);
}

static void
on_terminate ()
{
  std::string msg = "{\"id\":" + jstr (cur_id) + ",\"status\":\"terminate\"}\n";
  (void) !write (1, msg.c_str (), msg.size ());
  _exit (4);
}

static std::string
show_of (value const &v)
{
  std::stringstream ss;
  v.show (ss);
  return ss.str ();
}

static void dump_value (std::ostream &os, value const &v);

// Does the DIE live in a Dwarf that is not the main Dwarf of any module (the dwz alt file)?
static bool
die_in_alt (value_die const &d)
{
  struct ctx { Dwarf *dw; bool main; } c {dwarf_cu_getdwarf (const_cast <value_die &> (d).get_die ().cu), false};
  dwfl_getmodules (const_cast <value_die &> (d).get_dwctx ()->get_dwfl (),
		   [] (Dwfl_Module *mod, void **, const char *, Dwarf_Addr, void *arg) -> int
		   {
		     auto *cp = static_cast <ctx *> (arg);
		     Dwarf_Addr bias;
		     if (dwfl_module_getdwarf (mod, &bias) == cp->dw)
		       cp->main = true;
		     return DWARF_CB_OK;
		   }, &c, 0);
  return ! c.main;
}

static void
dump_die_chain (std::ostream &os, value_die const &d)
{
  // import chain, innermost first (offsets of the DW_TAG_imported_unit DIEs)
  os << "[";
  bool first = true;
  if (d.is_cooked ())
    for (auto imp = d.get_import (); imp != nullptr; imp = imp->get_import ())
      {
	if (! first) os << ",";
	first = false;
	Dwarf_Die dd = imp->get_die ();
	// an import DIE that lives in the alt file: offset with bit 40 set
	os << (dwarf_dieoffset (&dd) | (die_in_alt (*imp) ? (Dwarf_Off (1) << 40) : 0));
      }
  os << "]";
}

static void
dump_value (std::ostream &os, value const &v)
{
  os << "{\"pos\":" << v.get_pos () << ",";
  if (auto c = value::as <value_cst> (&v))
    {
      auto const &k = c->get_constant ();
      os << "\"t\":\"cst\",\"v\":\"";
      if (k.value ().m_sign == signedness::sign)
	os << k.value ().sval ();
      else
	os << k.value ().uval ();
      os << "\",\"s\":" << (k.value ().m_sign == signedness::sign ? "true" : "false")
	 << ",\"dom\":" << jstr (k.dom ()->name ())
	 << ",\"arith\":" << (k.dom ()->safe_arith () ? "true" : "false")
	 << ",\"show\":" << jstr (show_of (v));
    }
  else if (auto s = value::as <value_str> (&v))
    os << "\"t\":\"str\",\"hex\":\"" << hex (s->get_string ()) << "\"";
  else if (auto q = value::as <value_seq> (&v))
    {
      os << "\"t\":\"seq\",\"v\":[";
      bool first = true;
      for (auto const &e: *q->get_seq ())
	{
	  if (! first) os << ",";
	  first = false;
	  dump_value (os, *e);
	}
      os << "]";
    }
  else if (v.is <value_closure> ())
    os << "\"t\":\"closure\"";
  else if (auto d = value::as <value_die> (&v))
    {
      Dwarf_Die dd = d->get_die ();
      os << "\"t\":\"die\",\"off\":" << dwarf_dieoffset (&dd)
	 << ",\"tag\":" << dwarf_tag (&dd)
	 << ",\"raw\":" << (d->is_raw () ? "true" : "false")
	 << ",\"alt\":" << (die_in_alt (*d) ? "true" : "false")
	 << ",\"imp\":";
      dump_die_chain (os, *d);
    }
  else if (auto u = value::as <value_cu> (&v))
    os << "\"t\":\"cu\",\"off\":" << u->get_offset ()
       << ",\"raw\":" << (u->is_raw () ? "true" : "false");
  else if (auto a = value::as <value_attr> (&v))
    {
      Dwarf_Attribute at = a->get_attr ();
      Dwarf_Die dd = a->get_die ();
      os << "\"t\":\"attr\",\"name\":" << dwarf_whatattr (&at)
	 << ",\"form\":" << dwarf_whatform (&at)
	 << ",\"die\":" << dwarf_dieoffset (&dd)
	 << ",\"raw\":" << (a->is_raw () ? "true" : "false");
    }
  else if (auto w = value::as <value_dwarf> (&v))
    os << "\"t\":\"dwarf\",\"fn\":" << jstr (w->get_fn ())
       << ",\"raw\":" << (w->is_raw () ? "true" : "false");
  else if (auto as = value::as <value_aset> (&v))
    {
      os << "\"t\":\"aset\",\"v\":[";
      auto const &cov = as->get_coverage ();
      for (size_t i = 0; i < cov.size (); ++i)
	{
	  if (i) os << ",";
	  os << "[\"" << cov.at (i).start << "\",\"" << cov.at (i).length << "\"]";
	}
      os << "]";
    }
  else if (auto le = value::as <value_loclist_elem> (&v))
    os << "\"t\":\"llelem\",\"low\":\"" << le->get_low () << "\",\"high\":\""
       << le->get_high () << "\",\"n\":" << le->get_exprlen ();
  else if (auto lo = value::as <value_loclist_op> (&v))
    {
      Dwarf_Op *op = lo->get_dwop ();
      os << "\"t\":\"llop\",\"atom\":" << (unsigned) op->atom
	 << ",\"n1\":\"" << op->number << "\",\"n2\":\"" << op->number2
	 << "\",\"off\":" << op->offset;
    }
  else if (auto sy = value::as <value_symbol> (&v))
    {
      GElf_Sym sym = sy->get_symbol ();
      os << "\"t\":\"sym\",\"idx\":" << sy->get_symidx ()
	 << ",\"name\":" << jstr (sy->get_name ())
	 << ",\"value\":\"" << sym.st_value << "\",\"size\":\"" << sym.st_size
	 << "\",\"info\":" << (unsigned) sym.st_info
	 << ",\"other\":" << (unsigned) sym.st_other
	 << ",\"shndx\":" << (unsigned) sym.st_shndx;
    }
  else
    os << "\"t\":" << jstr (v.get_type ().name ())
       << ",\"show\":" << jstr (show_of (v));
  os << "}";
}

static void
dump_stack (std::ostream &os, zw_stack const &stk)
{
  os << "[";
  for (size_t i = 0; i < stk.m_values.size (); ++i)
    {
      if (i) os << ",";
      dump_value (os, *stk.m_values[i]);
    }
  os << "]";
}

struct flags
{
  bool nosimp = false, raw = false, tree = false, twice = false, noexec = false, share = false;
  size_t max = 100000;
  unsigned t = 20;
};

static flags
parse_flags (std::string const &s)
{
  flags f;
  for (auto const &w: split (s, ','))
    {
      if (w == "nosimp") f.nosimp = true;
      else if (w == "raw") f.raw = true;
      else if (w == "tree") f.tree = true;
      else if (w == "twice") f.twice = true;
      else if (w == "noexec") f.noexec = true;
      else if (w == "share") f.share = true;
      else if (w.compare (0, 4, "max=") == 0) f.max = std::stoul (w.substr (4));
      else if (w.compare (0, 2, "t=") == 0) f.t = std::stoul (w.substr (2));
    }
  return f;
}

static zw_vocabulary *g_voc;

struct cerr_capture
{
  std::stringstream ss;
  std::streambuf *old;
  cerr_capture () : old {std::cerr.rdbuf (ss.rdbuf ())} {}
  ~cerr_capture () { std::cerr.rdbuf (old); }
};

static zw_query *
do_parse (std::string const &q, flags const &f, std::string &err, std::string *treedump)
{
  zw_error *e = nullptr;
  if (f.nosimp || treedump)
    {
      // The same steps as zw_query_parse_len, with simplify optional.
      try
	{
	  tree t = parse_query (q);
	  if (treedump)
	    {
	      std::stringstream ss;
	      ss << t;
	      *treedump = ss.str ();
	    }
	  if (! f.nosimp)
	    {
	      t.simplify ();
	      if (treedump)
		{
		  std::stringstream ss;
		  ss << t;
		  *treedump += "\n" + ss.str ();
		}
	    }
	  layout l;
	  auto origin = std::make_shared <op_origin> (l);
	  auto op = t.build_exec (l, origin, *g_voc->m_voc);
	  return new zw_query {l, *origin, op};
	}
      catch (std::exception const &x)
	{
	  err = x.what ();
	  if (err.empty ()) err = "(empty message)";
	  return nullptr;
	}
    }

  zw_query *ret = zw_query_parse_len (g_voc, q.data (), q.size (), &e);
  if (ret == nullptr)
    {
      if (e == nullptr)
	err = "@@NOERROBJ";
      else
	{
	  char const *m = zw_error_message (e);
	  err = m ? m : "@@NULLMSG";
	  if (err.empty ()) err = "@@EMPTYMSG";
	  zw_error_destroy (e);
	}
    }
  else if (e != nullptr)
    err = "@@ERRSETONSUCCESS";
  return ret;
}

// Execute QUERY on the stack INPUT, pull everything (up to MAX), and print
// "results":[...],"status":...,"err":...
static void
exec_and_dump (std::ostream &os, zw_query *query, zw_stack *input, flags const &f)
{
  zw_error *e = nullptr;
  zw_result *res = zw_query_execute (query, input, &e);
  if (res == nullptr)
    {
      os << "\"status\":\"exec_error\",\"err\":"
	 << jstr (e ? zw_error_message (e) : "@@NOERROBJ");
      if (e) zw_error_destroy (e);
      return;
    }
  os << "\"results\":[";
  size_t n = 0;
  std::string status = "ok", err;
  while (true)
    {
      zw_stack *out = nullptr;
      e = nullptr;
      bool ok = zw_result_next (res, &out, &e);
      if (! ok)
	{
	  status = "runtime_error";
	  err = e ? zw_error_message (e) : "@@NOERROBJ";
	  if (e && err.empty ()) err = "@@EMPTYMSG";
	  if (e) zw_error_destroy (e);
	  break;
	}
      if (e != nullptr)
	{
	  status = "contract";
	  err = "@@ERRSETONSUCCESS";
	  zw_error_destroy (e);
	  break;
	}
      if (out == nullptr)
	break;
      if (n) os << ",";
      dump_stack (os, *out);
      zw_stack_destroy (out);
      if (++n >= f.max)
	{
	  status = "maxres";
	  break;
	}
    }
  zw_result_destroy (res);
  os << "],\"status\":" << jstr (status);
  if (! err.empty ())
    os << ",\"err\":" << jstr (err);
}

static zw_stack *
make_input (std::string const &file, flags const &f, std::string &err)
{
  zw_error *e = nullptr;
  zw_stack *stk = zw_stack_init (&e);
  if (! file.empty ())
    {
      zw_value *dw = f.raw ? zw_value_init_dwarf_raw (file.c_str (), 0, &e)
			   : zw_value_init_dwarf (file.c_str (), 0, &e);
      if (dw == nullptr)
	{
	  err = e ? zw_error_message (e) : "@@NOERROBJ";
	  if (e) zw_error_destroy (e);
	  zw_stack_destroy (stk);
	  return nullptr;
	}
      zw_stack_push_take (stk, dw, &e);
    }
  return stk;
}

static int
count_soft (std::string const &s, std::string &first)
{
  int n = 0;
  std::istringstream is (s);
  std::string line;
  while (std::getline (is, line))
    if (! line.empty ())
      {
	if (n == 0) first = line;
	++n;
      }
  return n;
}

static void
cmd_run (std::vector <std::string> const &w)
{
  flags f = parse_flags (w[2]);
  std::string q = unhex (w[3]);
  std::string file = w.size () > 4 ? w[4] : "";
  alarm (f.t);

  std::ostringstream os;
  os << "{\"id\":" << jstr (w[1]) << ",";
  cerr_capture cap;
  std::string err, treedump;
  zw_query *query = do_parse (q, f, err, f.tree ? &treedump : nullptr);
  if (f.tree)
    os << "\"tree\":" << jstr (treedump) << ",";
  if (query == nullptr)
    os << "\"status\":\"parse_error\",\"err\":" << jstr (err);
  else if (f.noexec)
    {
      os << "\"status\":\"parsed\"";
      zw_query_destroy (query);
    }
  else
    {
      std::string ierr;
      // share: the commands of this process that name the same file get the same Dwarf value (one
      // open), so that what depends on the identity of the handle is the same for all of them
      static std::map <std::string, zw_stack *> shared;
      std::string skey = file + (f.raw ? "|raw" : "|cooked");
      zw_stack *input = nullptr;
      if (f.share && shared.count (skey))
	input = shared[skey];
      else
	{
	  input = make_input (file, f, ierr);
	  if (f.share && input != nullptr)
	    shared[skey] = input;
	}
      if (input == nullptr)
	os << "\"status\":\"open_error\",\"err\":" << jstr (ierr);
      else
	{
	  exec_and_dump (os, query, input, f);
	  if (f.twice)
	    {
	      os << ",\"second\":{";
	      exec_and_dump (os, query, input, f);
	      os << "}";
	    }
	  if (! f.share)
	    zw_stack_destroy (input);
	}
      zw_query_destroy (query);
    }
  std::string first;
  int nsoft = count_soft (cap.ss.str (), first);
  os << ",\"soft\":" << nsoft;
  if (nsoft)
    os << ",\"soft1\":" << jstr (first);
  os << "}";
  alarm (0);
  g_rec = os.str ();
}

// hist ID FLAGS HEXQUERY SCHED HEXINPUTQ...
// SCHED: comma separated steps: e<slot>:<input>, p<slot>, d<slot>,
//        E<slot>:<input> (execute on the second compilation of the same text)
// Each input is a Zwerg query run on the empty stack (or on FILE's Dwarf, if
// flag file=... is given — not implemented here: inputs name their own
// files); its first result is the input stack.
static void
cmd_hist (std::vector <std::string> const &w)
{
  flags f = parse_flags (w[2]);
  std::string q = unhex (w[3]);
  alarm (f.t);
  std::ostringstream os;
  os << "{\"id\":" << jstr (w[1]) << ",";
  cerr_capture cap;

  std::string err;
  zw_query *query = do_parse (q, f, err, nullptr);
  zw_query *query2 = do_parse (q, f, err, nullptr);
  if (query == nullptr || query2 == nullptr)
    {
      os << "\"status\":\"parse_error\",\"err\":" << jstr (err) << "}";
      g_rec = os.str ();
      return;
    }

  // Inputs.
  std::vector <zw_stack *> inputs;
  for (size_t i = 5; i < w.size (); ++i)
    {
      std::string iq = unhex (w[i]);
      std::string ierr;
      // "*QUERY": every stack that QUERY yields is an input; values that they share (a
      // Dwarf and the caches that hang off it) are then shared between the executions.
      bool all = ! iq.empty () && iq[0] == '*';
      if (all)
	iq = iq.substr (1);
      flags fi;
      zw_query *q0 = do_parse (iq, fi, ierr, nullptr);
      zw_error *e = nullptr;
      zw_stack *empty = zw_stack_init (&e);
      size_t before = inputs.size ();
      if (q0 != nullptr)
	{
	  zw_result *r = zw_query_execute (q0, empty, &e);
	  if (r != nullptr)
	    {
	      zw_stack *in = nullptr;
	      while (zw_result_next (r, &in, &e) && in != nullptr)
		{
		  inputs.push_back (in);
		  in = nullptr;
		  if (! all)
		    break;
		}
	      zw_result_destroy (r);
	    }
	  zw_query_destroy (q0);
	}
      zw_stack_destroy (empty);
      if (inputs.size () == before)
	{
	  os << "\"status\":\"input_error\",\"err\":" << jstr (ierr) << "}";
	  g_rec = os.str ();
	  return;
	}
    }

  // Snapshot of the inputs to verify that they are not modified.
  std::vector <std::string> snap;
  for (auto in: inputs)
    {
      std::ostringstream s;
      dump_stack (s, *in);
      snap.push_back (s.str ());
    }

  std::map <int, zw_result *> slots;
  os << "\"steps\":[";
  bool firststep = true;
  for (auto const &st: split (w[4], ','))
    {
      if (st.empty ()) continue;
      if (! firststep) os << ",";
      firststep = false;
      char k = st[0];
      int slot = st[1] - '0';
      zw_error *e = nullptr;
      if (k == 'e' || k == 'E')
	{
	  int inp = std::stoi (st.substr (3));
	  if (slots.count (slot))
	    {
	      zw_result_destroy (slots[slot]);
	      slots.erase (slot);
	    }
	  zw_result *r = zw_query_execute (k == 'e' ? query : query2, inputs[inp], &e);
	  if (r == nullptr)
	    {
	      os << "{\"op\":" << jstr (st) << ",\"err\":"
		 << jstr (e ? zw_error_message (e) : "@@NOERROBJ") << "}";
	      if (e) zw_error_destroy (e);
	    }
	  else
	    {
	      slots[slot] = r;
	      os << "{\"op\":" << jstr (st) << "}";
	    }
	}
      else if (k == 'p')
	{
	  if (! slots.count (slot))
	    {
	      os << "{\"op\":" << jstr (st) << ",\"skip\":true}";
	      continue;
	    }
	  zw_stack *out = nullptr;
	  bool ok = zw_result_next (slots[slot], &out, &e);
	  os << "{\"op\":" << jstr (st);
	  if (! ok)
	    {
	      os << ",\"err\":" << jstr (e ? zw_error_message (e) : "@@NOERROBJ");
	      if (e) zw_error_destroy (e);
	      // an errored result set is finished
	      zw_result_destroy (slots[slot]);
	      slots.erase (slot);
	    }
	  else if (out == nullptr)
	    os << ",\"out\":null";
	  else
	    {
	      os << ",\"out\":";
	      dump_stack (os, *out);
	      zw_stack_destroy (out);
	    }
	  os << "}";
	}
      else if (k == 'd')
	{
	  if (slots.count (slot))
	    {
	      zw_result_destroy (slots[slot]);
	      slots.erase (slot);
	    }
	  os << "{\"op\":" << jstr (st) << "}";
	}
    }
  os << "]";
  for (auto &s: slots)
    zw_result_destroy (s.second);

  bool intact = true;
  for (size_t i = 0; i < inputs.size (); ++i)
    {
      std::ostringstream s;
      dump_stack (s, *inputs[i]);
      if (s.str () != snap[i])
	intact = false;
      zw_stack_destroy (inputs[i]);
    }
  zw_query_destroy (query);
  zw_query_destroy (query2);
  std::string first;
  int nsoft = count_soft (cap.ss.str (), first);
  os << ",\"inputs_intact\":" << (intact ? "true" : "false")
     << ",\"soft\":" << nsoft << ",\"status\":\"ok\"}";
  alarm (0);
  g_rec = os.str ();
}

// parse ID FLAGS HEXQUERY: the query bytes are placed at the very end of a
// page followed by an inaccessible page, without a terminator, so that a read
// past the given length faults.  Flag "z" uses zw_query_parse (NUL-terminated)
// instead.  Reports ok / NULL+message, and executes accepted queries on an
// empty stack with a small result budget when flag "exec" is present.
static void
cmd_parse (std::vector <std::string> const &w)
{
  flags f = parse_flags (w[2]);
  bool zterm = false, exec = false;
  for (auto const &x: split (w[2], ','))
    {
      if (x == "z") zterm = true;
      if (x == "exec") exec = true;
    }
  std::string q = unhex (w[3]);
  alarm (f.t);
  std::ostringstream os;
  os << "{\"id\":" << jstr (w[1]) << ",";
  cerr_capture cap;

  size_t pg = sysconf (_SC_PAGESIZE);
  size_t need = q.size () + (zterm ? 1 : 0);
  size_t npg = (need + pg - 1) / pg + 1;
  char *base = (char *) mmap (nullptr, (npg + 1) * pg, PROT_READ | PROT_WRITE,
			      MAP_PRIVATE | MAP_ANONYMOUS, -1, 0);
  mprotect (base + npg * pg, pg, PROT_NONE);
  char *buf = base + npg * pg - need;
  memcpy (buf, q.data (), q.size ());
  if (zterm)
    buf[q.size ()] = 0;

  zw_error *e = nullptr;
  zw_query *query = zterm ? zw_query_parse (g_voc, buf, &e)
			  : zw_query_parse_len (g_voc, buf, q.size (), &e);
  if (query == nullptr)
    {
      os << "\"status\":\"rejected\"";
      if (e == nullptr)
	os << ",\"contract\":\"NULL without error object\"";
      else
	{
	  char const *m = zw_error_message (e);
	  if (m == nullptr || *m == 0)
	    os << ",\"contract\":\"empty error message\"";
	  else
	    os << ",\"err\":" << jstr (m);
	  zw_error_destroy (e);
	}
    }
  else
    {
      os << "\"status\":\"accepted\"";
      if (e != nullptr)
	os << ",\"contract\":\"error object set on success\"";
      if (exec)
	{
	  zw_stack *input = zw_stack_init (&e);
	  os << ",\"exec\":{";
	  exec_and_dump (os, query, input, f);
	  os << "}";
	  zw_stack_destroy (input);
	}
      zw_query_destroy (query);
    }
  munmap (base, (npg + 1) * pg);
  os << "}";
  alarm (0);
  g_rec = os.str ();
}

int
main (int argc, char **argv)
{
  if (argc < 2)
    {
      std::cerr << "usage: zwdrv CMDFILE [START]\n";
      return 2;
    }
  signal (SIGALRM, on_alarm);
  std::set_terminate (on_terminate);

  zw_error *e = nullptr;
  g_voc = zw_vocabulary_init (&e);
  zw_vocabulary_add (g_voc, zw_vocabulary_core (&e), &e);
  zw_vocabulary_add (g_voc, zw_vocabulary_dwarf (&e), &e);

  std::ifstream in (argv[1]);
  size_t start = argc > 2 ? std::stoul (argv[2]) : 0;
  std::string line;
  size_t idx = 0;
  while (std::getline (in, line))
    {
      if (idx++ < start || line.empty ())
	continue;
      auto w = split (line, '\t');
      if (w.size () < 4)
	continue;
      cur_id = w[1];
      if (w[0] == "run") cmd_run (w);
      else if (w[0] == "hist") cmd_hist (w);
      else if (w[0] == "parse") cmd_parse (w);
      else if (w[0] == "words")
	{
	  std::ostringstream os;
	  os << "{\"id\":" << jstr (w[1]) << ",\"status\":\"ok\",\"words\":[";
	  bool first = true;
	  for (auto const &b: g_voc->m_voc->get_builtins ())
	    {
	      if (! first) os << ",";
	      first = false;
	      os << jstr (b.first);
	    }
	  os << "]}";
	  g_rec = os.str ();
	}
      // Leaks: checked every LEAK_EVERY commands (the check stops the world and is slow);
      // the caller re-runs the commands of a flagged window one by one.
      static int leak_every = getenv ("ZWDRV_LEAK_EVERY") ? atoi (getenv ("ZWDRV_LEAK_EVERY")) : 1;
      static int since = 0;
      int leaked = 0;
      if (++since >= leak_every)
	{
	  since = 0;
	  leaked = VERIF_LEAK_CHECK ();
	}
      if (! g_rec.empty ())
	{
	  if (leaked && g_rec.back () == '}')
	    g_rec = g_rec.substr (0, g_rec.size () - 1) + ",\"leak\":true}";
	  std::cout << g_rec << "\n";
	  g_rec.clear ();
	}
      std::cout.flush ();
    }
  zw_vocabulary_destroy (g_voc);
  return 0;
}
