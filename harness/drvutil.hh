// Shared helpers of the /verif drivers (header only).
#ifndef VERIF_DRVUTIL_HH
#define VERIF_DRVUTIL_HH

#include <string>
#include <vector>
#include <sstream>
#include <cstdint>
#include <cstdio>

namespace drv
{
  inline std::string
  unhex (std::string const &h)
  {
    std::string r;
    auto nib = [] (char c) -> int {
      if (c >= '0' && c <= '9') return c - '0';
      if (c >= 'a' && c <= 'f') return c - 'a' + 10;
      if (c >= 'A' && c <= 'F') return c - 'A' + 10;
      return 0;
    };
    for (size_t i = 0; i + 1 < h.size (); i += 2)
      r.push_back ((char) (nib (h[i]) * 16 + nib (h[i + 1])));
    return r;
  }

  inline std::string
  hex (std::string const &s)
  {
    static char const *d = "0123456789abcdef";
    std::string r;
    for (unsigned char c: s)
      {
	r.push_back (d[c >> 4]);
	r.push_back (d[c & 15]);
      }
    return r;
  }

  inline std::string
  jstr (std::string const &s)
  {
    std::string r = "\"";
    for (unsigned char c: s)
      {
	if (c == '"') r += "\\\"";
	else if (c == '\\') r += "\\\\";
	else if (c < 0x20 || c >= 0x7f)
	  {
	    char buf[8];
	    snprintf (buf, sizeof buf, "\\u%04x", c);
	    r += buf;
	  }
	else r.push_back (c);
      }
    r += "\"";
    return r;
  }

  inline std::vector <std::string>
  split (std::string const &s, char sep)
  {
    std::vector <std::string> r;
    std::string cur;
    for (char c: s)
      if (c == sep)
	{
	  r.push_back (cur);
	  cur.clear ();
	}
      else
	cur.push_back (c);
    r.push_back (cur);
    return r;
  }
}

#endif
