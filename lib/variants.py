"""Notation variants of a Zwerg program (C15): layouts, comments, parentheses, string
spellings, sugar."""
import copy, random, re
import zw

# ---------------------------------------------------------------------------
# token level: layout and comments

_TOK = re.compile(r'''
    r?"(?:[^"\\]|\\.|"\\[ \t\n]*r?")*"      # string literal (with continuations)
  | \?\( | !\( | \?\{ | !\{
  | \|\| | := | [()\[\]{},;|*+?:]
  | [^\s()\[\]{},;|*+"]+                    # words, numbers, operators
''', re.X | re.S)


def tokens(text):
    """Tokens of a program text as produced by zw.unparse (no comments in it).
    Format strings are kept whole: their splices are handled by fmt_tokens."""
    out = []
    pos = 0
    while pos < len(text):
        if text[pos].isspace():
            pos += 1
            continue
        if text[pos] == '"' or text.startswith('r"', pos):
            end = _string_end(text, pos)
            out.append(text[pos:end])
            pos = end
            continue
        m = _TOK.match(text, pos)
        if not m:
            raise ValueError("cannot tokenize at %r" % text[pos:pos + 20])
        out.append(m.group(0))
        pos = m.end()
    return out


def _string_end(text, pos):
    """End of the string literal starting at pos, skipping %( ... %) splices."""
    i = pos + (2 if text[pos] == "r" else 1)
    depth = 0
    instr = []          # stack of 'in inner string' flags per splice depth
    while i < len(text):
        c = text[i]
        if depth == 0:
            if c == "\\":
                i += 2
                continue
            if text.startswith("%(", i):
                depth = 1
                instr = [False]
                i += 2
                continue
            if c == '"':
                return i + 1
            i += 1
        else:
            if not instr[-1] and text.startswith("%)", i):
                depth -= 1
                instr.pop()
                i += 2
                continue
            if instr[-1] and text.startswith("%(", i):
                depth += 1
                instr.append(False)
                i += 2
                continue
            if c == "\\" and instr[-1]:
                i += 2
                continue
            if c == '"':
                instr[-1] = not instr[-1]
            i += 1
    raise ValueError("unterminated string in %r" % text)


COMMENTS = ["/* c */", "/* two words */", "/*x*/", "# hash\n", "// slashes\n", "/* a\n b */",
            # comments without text, and rulers made of characters that operators are made of
            "//\n", "#\n", "/**/", "//=====\n", "//////////\n", "#-----\n", "// .:.:.\n", "//<=>\n", "/*==*/", "/* <= */"]
STAR_COMMENTS = ["/***/", "/* a **/", "/** b */"]
SPACES = [" ", "  ", "\n", "\t", " \n "]


def split_fmt(tok):
    """A string literal token cut at its outermost splices: [("lit", text), ("body", text), ("lit", text), ...];
    the pieces concatenate to the token, `%(' and `%)' belonging to the literal pieces."""
    i = 2 if tok[0] == "r" else 1
    out, start = [], 0
    while i < len(tok):
        c = tok[i]
        if c == "\\":
            i += 2
            continue
        if tok.startswith("%(", i):
            # the body runs to the %) that is not inside a nested literal or a nested splice
            j, depth, instr = i + 2, 1, [False]
            while j < len(tok) and depth:
                if not instr[-1] and tok.startswith("%)", j):
                    depth -= 1; instr.pop(); j += 2; continue
                if instr[-1] and tok.startswith("%(", j):
                    depth += 1; instr.append(False); j += 2; continue
                if tok[j] == "\\" and instr[-1]:
                    j += 2; continue
                if tok[j] == '"':
                    instr[-1] = not instr[-1]
                j += 1
            if depth:
                raise ValueError("unterminated splice in %r" % tok)
            out.append(("lit", tok[start:i + 2])); out.append(("body", tok[i + 2:j - 2]))
            start = j - 2
            i = j
            continue
        i += 1
    out.append(("lit", tok[start:]))
    return out


def relayout(text, rng, comments=True, stars=False, inner=False):
    """White space, newlines and comments between all tokens -- those of embedded programs included."""
    toks = tokens(text)
    out = []
    for i, t in enumerate(toks):
        if i:
            sep = rng.choice(SPACES)
            if comments and rng.random() < 0.4:
                pool = COMMENTS + (STAR_COMMENTS if stars else [])
                sep = sep + rng.choice(pool) + rng.choice(SPACES)
            out.append(sep)
        if (t[0] == '"' or t.startswith('r"')) and "%(" in t:
            t = "".join(piece if kind == "lit" else " " + relayout(piece, rng, comments, stars, inner=True) + " "
                        for kind, piece in split_fmt(t))
        out.append(t)
    # a line comment runs to the end of the line: inside a splice it must not be the last thing before %)
    lead = rng.choice(["", " ", "\n", "/* lead */ "]) if comments else ""
    trail = rng.choice(["", " ", "\n"] + ([] if inner else [" # end"])) if comments else ""
    return lead + "".join(out) + trail


# ---------------------------------------------------------------------------
# AST level: sugar and parentheses

def _walk(p, path=()):
    yield path, p
    if isinstance(p, dict):
        for k in ("a", "b", "c"):
            if k in p and isinstance(p[k], dict):
                yield from _walk(p[k], path + (k,))
        if p.get("k") == "fmt":
            for i, part in enumerate(p["parts"]):
                if "e" in part:
                    yield from _walk(part["e"], path + (("parts", i),))


def _get(p, path):
    for s in path:
        p = p["parts"][s[1]]["e"] if isinstance(s, tuple) else p[s]
    return p


def _set(p, path, new):
    if not path:
        return new
    q = copy.deepcopy(p)
    cur = q
    for s in path[:-1]:
        cur = cur["parts"][s[1]]["e"] if isinstance(s, tuple) else cur[s]
    s = path[-1]
    if isinstance(s, tuple):
        cur["parts"][s[1]]["e"] = new
    else:
        cur[s] = new
    return q


def W(w): return {"k": "word", "w": w}
def Cat(a, b): return {"k": "cat", "a": a, "b": b}
def Name(n): return {"k": "name", "w": n}
EMP = {"k": "emp"}
INFIX_WORD = {"==": "?eq", "!=": "?ne", "<": "?lt", "<=": "?le", ">": "?gt", ">=": "?ge"}


def rewrites(p, leaves_value):
    """All single-position sugar rewrites of p: list of (name, new ast).  leaves_value(path)
    tells whether the sub-expression at path is known to leave a value to capture."""
    out = []
    for path, n in _walk(p):
        k = n.get("k")
        if k == "opt":
            out.append(("opt->(E,)", _set(p, path, {"k": "alt", "a": n["a"], "b": EMP})))
        elif k == "if":
            new = {"k": "alt",
                   "a": Cat({"k": "sub", "w": "?", "ids": [], "a": n["c"]}, {"k": "scope", "ids": [], "a": n["a"]}),
                   "b": Cat({"k": "sub", "w": "!", "ids": [], "a": n["c"]}, {"k": "scope", "ids": [], "a": n["b"]})}
            out.append(("if->alt", _set(p, path, new)))
        elif k == "sub" and not n["ids"] and leaves_value(n["a"]):
            op = "!=" if n["w"] == "?" else "=="
            new = {"k": "infix", "w": op, "a": {"k": "cap", "ids": [], "a": n["a"]}, "b": {"k": "elist"}}
            out.append(("sub->capture", _set(p, path, new)))
        elif k == "infix":
            new = {"k": "sub", "w": "?", "ids": [],
                   "a": Cat({"k": "let", "ids": ["Ta_"], "a": n["a"]},
                            Cat({"k": "let", "ids": ["Tb_"], "a": n["b"]},
                                Cat(Name("Ta_"), Cat(Name("Tb_"), W(INFIX_WORD[n["w"]])))))}
            out.append(("infix->let", _set(p, path, new)))
        if k in ("lit", "word", "cat", "cap", "str", "fmt", "name") and path:
            out.append(("parens", _set(p, path, {"k": "scope", "ids": [], "a": n})))
    return out


# ---------------------------------------------------------------------------
# string spellings (text level, applied to plain string tokens without splices)

def respell_string(tok, rng):
    """tok: a simple "..." literal (no %, no backslash).  Returns an equivalent spelling."""
    body = tok[1:-1]
    if not body or "%" in body or "\\" in body or tok.startswith("r"):
        return tok
    kind = rng.randrange(4)
    if kind == 0 and len(body) >= 2:
        cut = rng.randrange(1, len(body))
        return '"%s"\\ "%s"' % (body[:cut], body[cut:])
    if kind == 1:
        return '"' + "".join("\\x%02x" % ord(c) for c in body) + '"'
    if kind == 2:
        return '"' + "".join("\\%03o" % ord(c) for c in body) + '"'
    return 'r"%s"' % body
