"""Shared plumbing of the checks: builds, evidence, known findings, verdicts."""
import json, os, subprocess, sys, time, hashlib, re, shutil, concurrent.futures

VERIF = os.path.dirname(os.path.dirname(os.path.abspath(__file__)))
REPO = os.environ.get("VERIF_REPO", "/repo")


def workdir(sub=None):
    d = os.environ.get("VERIF_WORK", "/var/tmp/dwgrep-verif")
    if sub:
        d = os.path.join(d, sub)
    os.makedirs(d, exist_ok=True)
    return d


def scratch(pid):
    """A fresh scratch directory for one run of a check.  Every run has its own (the process id is part of the
    name), so that runs of the same check -- against different trees (VERIF_REPO: the scratch worktrees of
    bin/seedtest), from different copies of /verif, in different tiers -- can go on side by side; the directories
    that earlier runs of this check left behind are removed unless their process is still alive."""
    tag = "" if REPO == "/repo" else "-" + hashlib.sha1(REPO.encode()).hexdigest()[:8]
    base = "run-" + pid + tag
    import glob
    for old in glob.glob(os.path.join(workdir(), base + "-p[0-9]*")):
        try:
            owner = int(old.rsplit("-p", 1)[1])
            os.kill(owner, 0)                                   # alive: leave it alone
        except (ValueError, ProcessLookupError):
            shutil.rmtree(old, ignore_errors=True)
        except PermissionError:
            pass
    d = workdir("%s-p%d" % (base, os.getpid()))
    shutil.rmtree(d, ignore_errors=True)
    os.makedirs(d)
    return d


class ToolError(Exception):
    pass


def build(flavour="plain"):
    pr = subprocess.run([os.path.join(VERIF, "bin", "build-repo"), flavour, REPO],
                        stdout=subprocess.PIPE, stderr=subprocess.PIPE)
    if pr.returncode != 0:
        raise ToolError("build (%s) failed:\n%s" % (flavour, pr.stderr.decode()[-3000:]))
    return pr.stdout.decode().strip().splitlines()[-1]


def seed():
    try:
        return int(os.environ.get("VERIF_SEED", "1"))
    except ValueError:
        return 1


def tier(argv_tier=None):
    t = argv_tier or os.environ.get("VERIF_TIER") or "quick"
    return "thorough" if t.startswith("th") else "quick"


# ---------------------------------------------------------------------------
# known findings

class Known:
    """known-findings.txt: lines
         finding: property=<ID> key=<regex on the observation key> <text>
         fixed: property=<ID> <commit> <text>         (suppresses nothing)
    """

    def __init__(self):
        self.findings = []
        path = os.path.join(VERIF, "known-findings.txt")
        if os.path.exists(path):
            for line in open(path):
                line = line.strip()
                m = re.match(r"finding:\s+property=(\S+)\s+key=(\S+)\s+(.*)", line)
                if m:
                    self.findings.append((m.group(1), m.group(2), m.group(3)))

    def match(self, pid, key):
        for (p, k, text) in self.findings:
            if p == pid and re.fullmatch(k, key):
                return (k, text)
        return None


# ---------------------------------------------------------------------------
# verdict collection

class Verdict:
    def __init__(self, pid, tier_):
        self.pid = pid
        self.tier = tier_
        self.t0 = time.time()
        self.violations = []       # (key, replay dict)
        self.known_seen = {}       # key pattern -> (text, count, example)
        self.drift = []
        self.known = Known()
        self.cov = {"evaluations": 0, "distinct_nontrivial": 0, "samples": [],
                    "states": 0, "transitions": 0, "traces_validated_against_impl": 0}
        self.assumptions = []
        self.notes = {}
        import glob
        for f in glob.glob(os.path.join(VERIF, "replays", pid + "-*.json")):
            try:
                os.unlink(f)
            except OSError:
                pass
        try:
            os.unlink(os.path.join(workdir(), "violations-%s.txt" % pid))
        except OSError:
            pass

    def lap(self, name):
        now = time.time()
        last = getattr(self, "_lap", self.t0)
        self.cov.setdefault("phase_s", {})[name] = round(now - last, 1)
        self._lap = now

    def observe(self, key, replay):
        """A contradiction between the code and the meaning layer.  key identifies the
        failing input / call site for the known-findings file."""
        k = self.known.match(self.pid, key)
        if k:
            pat, text = k
            ent = self.known_seen.setdefault(pat, [text, 0, key])
            ent[1] += 1
            return False
        if len(self.violations) < 50:
            self.violations.append((key, replay))
        else:
            self.violations.append((key, None))
        return True

    def add_states(self, res):
        self.cov["states"] += res.distinct
        self.cov["transitions"] += res.states

    def sample(self, s, limit=6):
        if len(self.cov["samples"]) < limit:
            self.cov["samples"].append(s)

    def finish(self, level="model_checking", rule="", exhaustive=None, extra=None):
        wall = time.time() - self.t0
        self.cov["rule"] = rule
        if exhaustive is not None:
            self.cov["exhaustive"] = exhaustive
        if extra:
            self.cov.update(extra)
        if not self.cov["samples"]:
            self.cov["samples"] = ["(none)"]
        self.cov["known_findings_observed"] = {
            k: {"text": v[0], "count": v[1], "example": v[2]} for k, v in self.known_seen.items()}
        if self.drift:
            self.cov["model_drift"] = self.drift[:10]
        ev = {"property_id": self.pid, "tier": self.tier, "seed": seed(), "level": level,
              "coverage": self.cov, "assumptions": self.assumptions, "wall_s": round(wall, 2),
              "violations": len(self.violations)}
        evd = os.environ.get("VERIF_EVIDENCE", os.path.join(VERIF, "evidence"))
        os.makedirs(evd, exist_ok=True)
        with open(os.path.join(evd, self.pid + ".json"), "w") as f:
            json.dump(ev, f, indent=1, default=str)
        for pat, (text, n, ex) in self.known_seen.items():
            print("KNOWN-FINDING: property=%s %s (key %s, observed %d times, e.g. %s)"
                  % (self.pid, text, pat, n, ex))
        for d in self.drift[:5]:
            print("MODEL-DRIFT property=%s %s" % (self.pid, d))
        if self.violations:
            with open(os.path.join(workdir(), "violations-%s.txt" % self.pid), "w") as f:
                for key, rep in self.violations:
                    f.write(key + "\n")
            os.makedirs(os.path.join(VERIF, "replays"), exist_ok=True)
            seen = set()
            for key, rep in self.violations:
                if rep is None or key in seen:
                    continue
                seen.add(key)
                h = hashlib.sha1(key.encode()).hexdigest()[:10]
                path = os.path.join(VERIF, "replays", "%s-%s.json" % (self.pid, h))
                with open(path, "w") as f:
                    json.dump({"property": self.pid, "key": key, "replay": rep}, f, indent=1,
                              default=str)
                print("VIOLATION property=%s replay=%s" % (self.pid, path))
                if len(seen) >= 10:
                    break
            print("%s: %d violation(s) in %.1fs" % (self.pid, len(self.violations), wall))
            return 1
        print("%s: OK (%s tier, %.1fs, %d evaluations, %d states)"
              % (self.pid, self.tier, wall, self.cov["evaluations"], self.cov["states"]))
        return 0


def parallel(fn, items, workers=8):
    with concurrent.futures.ThreadPoolExecutor(max_workers=workers) as ex:
        return list(ex.map(fn, items))
