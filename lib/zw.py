"""Zwerg glue: unparse model ASTs, run the driver, compare results with the model."""
import json, os, subprocess, binascii, collections

# ---------------------------------------------------------------------------
# unparse: model AST (as JSON from TLC) -> Zwerg text

def _ids(ids):
    return "|" + " ".join(ids) + "| " if ids else ""


def _str_lit(s):
    if isinstance(s, list):
        s = "".join("\0" if c == "NUL" else c for c in s)
    out = '"'
    for ch in s:
        if ch == "\0":
            out += '\\x00'
        elif ch == '"':
            out += '\\"'
        elif ch == '\\':
            out += '\\\\'
        elif ch == '%':
            out += '%%'
        elif ch == '\n':
            out += '\\n'
        else:
            out += ch
    return out + '"'


def unparse(p, ctx="top"):
    """ctx: 'top' (a Program position), 'stmt' (needs to be one Statement),
    'list' (inside a StatementList: concatenation operand)."""
    k = p["k"]

    def par(txt):
        return "(" + txt + ")"

    if k == "emp":
        return "" if ctx == "top" else "()"
    if k == "lit":
        return str(p["n"])
    if k == "elist":
        return "[]"
    if k == "str":
        return _str_lit(p["w"])
    if k == "word":
        return p["w"]
    if k == "posw":
        return ("?" if p["p"] else "!") + str(p["n"])
    if k == "name":
        return p["w"]
    if k == "cat":
        a = unparse(p["a"], "list")
        b = unparse(p["b"], "list")
        txt = (a + " " + b).strip() if a and b else (a or b)
        if ctx == "stmt":
            return par(txt)
        return txt
    if k in ("alt", "or"):
        sep = ", " if k == "alt" else " || "
        # operands of ',' are OrLists, operands of '||' are OpLists
        a = unparse(p["a"], "list" if p["a"]["k"] not in ("alt", "or") else "stmt")
        b = unparse(p["b"], "list" if p["b"]["k"] not in ("alt", "or") else "stmt")
        txt = a + sep + b
        return txt if ctx == "top" else par(txt)
    if k == "infix":
        a = unparse(p["a"], "list" if p["a"]["k"] not in ("alt", "or", "infix") else "stmt")
        b = unparse(p["b"], "list" if p["b"]["k"] not in ("alt", "or", "infix") else "stmt")
        txt = (a + " " + p["w"] + " " + b).strip()
        return txt if ctx == "top" else par(txt)
    if k == "cap":
        body = unparse(p["a"], "top")
        if not body and not p["ids"]:
            body = "()"          # "[]" is the empty-list literal
        return "[" + _ids(p["ids"]) + body + "]"
    if k == "scope":
        return "(" + _ids(p["ids"]) + unparse(p["a"], "top") + ")"
    if k == "sub":
        return p["w"] + "(" + _ids(p["ids"]) + unparse(p["a"], "top") + ")"
    if k == "let":
        return "let " + " ".join(p["ids"]) + " := " + unparse(p["a"], "top") + ";"
    if k == "letf":
        return "let " + p["w"] + " := {" + unparse(p["a"], "top") + "};"
    if k == "bapply":
        txt = "{" + _ids(p.get("ids", [])) + unparse(p["a"], "top") + "} apply"
        return par(txt) if ctx == "stmt" else txt
    if k == "block":
        return "{" + _ids(p["ids"]) + unparse(p["a"], "top") + "}"
    if k == "if":
        txt = ("if " + unparse(p["c"], "stmt") + " then " + unparse(p["a"], "stmt")
               + " else " + unparse(p["b"], "stmt"))
        return txt if ctx == "top" else par(txt)
    if k in ("star", "plus", "opt"):
        sym = {"star": "*", "plus": "+", "opt": "?"}[k]
        if p["a"]["k"] in ("lit", "str", "word", "posw", "name", "cap", "scope", "sub",
                           "block", "fmt"):
            inner = unparse(p["a"], "stmt")
        else:
            inner = par(unparse(p["a"], "top"))
        return inner + sym
    if k == "fmt":
        out = '"'
        for part in p["parts"]:
            if "lit" in part:
                out += _str_lit(part["lit"])[1:-1]
            else:
                out += "%( " + unparse(part["e"], "top") + " %)"
        return out + '"'
    raise ValueError("unparse: unknown kind " + k)


def _is_stmt(p):
    return p["k"] in ("lit", "str", "word", "posw", "name", "cap", "scope", "sub", "let",
                      "letf", "block", "fmt")


def _balanced_outer(txt):
    """True if txt is '(' ... ')' with the first paren closing at the end."""
    depth = 0
    for i, ch in enumerate(txt):
        if ch == "(":
            depth += 1
        elif ch == ")":
            depth -= 1
            if depth == 0 and i != len(txt) - 1:
                return False
    return depth == 0


# ---------------------------------------------------------------------------
# values: normal forms for comparison

def norm_model_value(v, with_pos=True):
    t = v["t"]
    if t == "i":
        r = ("cst", str(v["i"]), v.get("d", "dec"))
    elif t == "s":
        sv = v["s"]
        if isinstance(sv, list):
            sv = "".join("\0" if c == "NUL" else c for c in sv)
        r = ("str", sv.encode("latin-1", "replace"))
    elif t == "q":
        r = ("seq", tuple(norm_model_value(e, with_pos) for e in v["q"]))
    elif t == "c":
        r = ("closure",)
    else:
        raise ValueError(t)
    return r + ((v["pos"],) if with_pos else ())


_DOM = {"dec": "dec", "hex": "hex", "oct": "oct", "bin": "bin", "pos": "pos", "T": "T"}


def norm_real_value(v, with_pos=True):
    t = v["t"]
    if t == "cst":
        dom = v["dom"]
        if dom.startswith("T_") or dom == "T_*":
            dom = "T"
        r = ("cst", v["v"], dom)
    elif t == "str":
        r = ("str", binascii.unhexlify(v["hex"]))
    elif t == "seq":
        r = ("seq", tuple(norm_real_value(e, with_pos) for e in v["v"]))
    elif t == "closure":
        r = ("closure",)
    else:
        r = (t, json.dumps(v, sort_keys=True))
    return r + ((v["pos"],) if with_pos else ())


def norm_model_stack(stk, with_pos=True):
    return tuple(norm_model_value(v, with_pos) for v in stk)


def norm_real_stack(stk, with_pos=True):
    return tuple(norm_real_value(v, with_pos) for v in stk)


# ---------------------------------------------------------------------------
# driver

def hexq(s):
    if isinstance(s, str):
        s = s.encode("utf-8", "surrogateescape")
    return binascii.hexlify(s).decode()


def run_driver(drv, cmds, workdir, tag="cmds", timeout=3600, max_hangs=None):
    """cmds: list of tab-joined command lines.  Returns list of JSON results in order
    (a timed-out / crashed command yields {'id':..., 'status':'timeout'|'crash'}).
    A tree that breaks progress must not hang the harness: after MAX_HANGS timeouts (default 15,
    VERIF_MAX_HANGS) the remaining commands are not run and get the status 'skipped-after-hangs';
    the timeouts seen up to there are in the results and are what the caller reports."""
    if max_hangs is None:
        max_hangs = int(os.environ.get("VERIF_MAX_HANGS", "15"))
    hangs = 0
    os.makedirs(workdir, exist_ok=True)
    path = os.path.join(workdir, tag + ".txt")
    with open(path, "w") as f:
        for c in cmds:
            f.write(c + "\n")
    results = []
    start = 0
    env = dict(os.environ)
    env.setdefault("ASAN_OPTIONS", "detect_leaks=1:abort_on_error=0:exitcode=77")
    env.setdefault("UBSAN_OPTIONS", "print_stacktrace=1:halt_on_error=1:exitcode=78")
    while start < len(cmds):
        pr = subprocess.run([drv, path, str(start)], stdout=subprocess.PIPE,
                            stderr=subprocess.PIPE, timeout=timeout, env=env)
        lines = [l for l in pr.stdout.decode("utf-8", "replace").splitlines() if l.strip()]
        got = []
        for l in lines:
            try:
                got.append(json.loads(l))
            except ValueError:
                got.append({"status": "garbled", "raw": l[:200]})
        results.extend(got)
        n = len(got)
        if pr.returncode == 0 and start + n >= len(cmds):
            break
        if pr.returncode in (3, 4) and n > 0:
            # the last record is the timeout / terminate marker of command start+n-1
            start += n
            if got[-1].get("status") == "timeout":
                hangs += 1
                if hangs >= max_hangs:
                    for c in cmds[start:]:
                        results.append({"id": c.split("\t")[1], "status": "skipped-after-hangs"})
                    break
            continue
        # crash: the command after the last complete record
        cid = cmds[start + n].split("\t")[1] if start + n < len(cmds) else "?"
        results.append({"id": cid, "status": "crash", "rc": pr.returncode,
                        "stderr": pr.stderr.decode("utf-8", "replace")[-2000:]})
        start += n + 1
    return results


def multiset(xs):
    return collections.Counter(xs)
