"""Running TLC / SANY from the checks."""
import os, re, subprocess, tempfile, shutil, time, json

VERIF = os.path.dirname(os.path.dirname(os.path.abspath(__file__)))
TLA = os.path.join(VERIF, "tla")
JAR = "/opt/veriftools/tla/tla2tools.jar"
CM = "/opt/veriftools/tla/CommunityModules-deps.jar"


def workdir():
    d = os.environ.get("VERIF_WORK", "/var/tmp/dwgrep-verif")
    os.makedirs(d, exist_ok=True)
    return d


def tla_string(s):
    return '"' + s.replace("\\", "\\\\").replace('"', '\\"') + '"'


def cfg_value(v):
    if isinstance(v, bool):
        return "TRUE" if v else "FALSE"
    if isinstance(v, int):
        return str(v)
    if isinstance(v, str):
        return tla_string(v)
    if isinstance(v, (tuple, list, set, frozenset)):
        return "{" + ", ".join(cfg_value(x) for x in sorted(v)) + "}"
    raise TypeError(v)


class TlcResult:
    def __init__(self, rc, out, wall):
        self.rc = rc
        self.out = out
        self.wall = wall
        self.states = 0
        self.distinct = 0
        self.violated = None
        m = re.search(r"(\d+) states generated, (\d+) distinct states found", out)
        if m:
            self.states = int(m.group(1))
            self.distinct = int(m.group(2))
        m = re.search(r"Invariant (\S+) is violated", out)
        if m:
            self.violated = m.group(1)
        m = re.search(r"The depth of the complete state graph search is (\d+)", out)
        self.depth = int(m.group(1)) if m else 0
        self.ok = (rc == 0 and "Model checking completed. No error has been found" in out)

    def printed(self, tag):
        """Values printed with PrintT(<<tag, ...>>) as raw strings."""
        res = []
        for line in self.out.splitlines():
            if line.startswith('<<"' + tag + '"'):
                res.append(line)
        return res


def run_tlc(module, constants=None, invariants=(), spec=None, init=None, nxt=None,
            props=(), constraint=None, view=None, workers=4, timeout=900, extra=(),
            env=None, simulate=None, deadlock=False, postcondition=None, heap="8g",
            copy=None, overrides=None):
    """Run TLC on tla/<module>.tla with a generated config in a scratch dir."""
    tmp = tempfile.mkdtemp(prefix="tlc-", dir=workdir())
    try:
        for f in os.listdir(TLA):
            if f.endswith(".tla"):
                shutil.copy(os.path.join(TLA, f), tmp)
        for f in (copy or []):
            shutil.copy(f, tmp)
        lines = []
        if spec:
            lines.append("SPECIFICATION " + spec)
        if init:
            lines.append("INIT " + init)
        if nxt:
            lines.append("NEXT " + nxt)
        if constants:
            lines.append("CONSTANTS")
            for k, v in constants.items():
                lines.append("  %s = %s" % (k, cfg_value(v)))
        if overrides:            # definition overrides: {"Def": "OtherDef"} (both defined in the module)
            if not constants:
                lines.append("CONSTANTS")
            for k, v in overrides.items():
                lines.append("  %s <- %s" % (k, v))
        for i in invariants:
            lines.append("INVARIANT " + i)
        for p in props:
            lines.append("PROPERTY " + p)
        if constraint:
            lines.append("CONSTRAINT " + constraint)
        if view:
            lines.append("VIEW " + view)
        if postcondition:
            lines.append("POSTCONDITION " + postcondition)
        lines.append("CHECK_DEADLOCK " + ("TRUE" if deadlock else "FALSE"))
        with open(os.path.join(tmp, module + ".cfg"), "w") as f:
            f.write("\n".join(lines) + "\n")
        cmd = ["java", "-XX:+UseParallelGC", "-Xmx" + heap, "-Xss64m",
               "-cp", JAR + ":" + CM, "tlc2.TLC",
               "-workers", str(workers), "-metadir", os.path.join(tmp, "states"),
               "-config", module + ".cfg"]
        if simulate:
            cmd += ["-simulate", simulate]
        cmd += list(extra) + [module + ".tla"]
        e = dict(os.environ)
        if env:
            e.update(env)
        t0 = time.time()
        try:
            pr = subprocess.run(cmd, cwd=tmp, env=e, stdout=subprocess.PIPE,
                                stderr=subprocess.STDOUT, timeout=timeout)
            out = pr.stdout.decode("utf-8", "replace")
            rc = pr.returncode
        except subprocess.TimeoutExpired as ex:
            out = (ex.stdout or b"").decode("utf-8", "replace") + "\nTLC TIMEOUT\n"
            rc = 124
        return TlcResult(rc, out, time.time() - t0)
    finally:
        shutil.rmtree(tmp, ignore_errors=True)
