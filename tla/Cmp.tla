-------------------------------- MODULE Cmp --------------------------------
(***************************************************************************)
(* The ordering of Zwerg values (constant.cc, value-*.cc, builtin-cmp.cc). *)
(* Values:  [k |-> "c", dom |-> domain, n |-> number]   constants          *)
(*          [k |-> "s", b |-> <<bytes>>]                strings            *)
(*          [k |-> "q", e |-> <<values>>]               sequences          *)
(* A constant domain is arithmetic (dec hex oct bin pos ...) or named; a   *)
(* named domain may belong to a family whose generic sub-domain covers the *)
(* low numbers (ELF symbol types): Enclosing(dom, n).    Unrelated domains are      *)
(* ordered by the ADDRESS of the domain object, which depends on the link  *)
(* order: `addr` ranges over all permutations, so every order is explored. *)
(* PinnedConst = TRUE: constant::operator< of the pinned commit (value     *)
(* comparison when both arithmetic or same enclosing domain, otherwise by  *)
(* the address of the constant's own domain).  PinnedCross = TRUE: the     *)
(* ?lt/?gt words order values of different types opposite to the order     *)
(* sequences and stacks use.                                               *)
(***************************************************************************)
EXTENDS Integers, Sequences, FiniteSets, TLC

CONSTANTS PinnedConst, PinnedCross

Arith == {"dec", "hex"}
Named == {"bool", "T", "STT", "STT_ARM", "STT_SPARC"}
Doms == Arith \cup Named
STT_LOOS == 10
Enclosing(d, n) == IF d \in {"STT_ARM", "STT_SPARC"} /\ n < STT_LOOS THEN "STT" ELSE d
Class(d, n) == IF d \in Arith THEN "dec" ELSE Enclosing(d, n)

C(d, n) == [k |-> "c", dom |-> d, n |-> n]
S(b) == [k |-> "s", b |-> b]
Q(e) == [k |-> "q", e |-> e]

TypeCode(v) == CASE v.k = "c" -> 2 [] v.k = "q" -> 3 [] v.k = "s" -> 4

VARIABLE addr       \* domain -> address rank (a permutation)

ConstLess(a, b) ==
    IF PinnedConst
    THEN IF a.dom = b.dom THEN a.n < b.n
         ELSE IF (a.dom \in Arith /\ b.dom \in Arith) \/ Enclosing(a.dom, a.n) = Enclosing(b.dom, b.n)
         THEN a.n < b.n ELSE addr[a.dom] < addr[b.dom]
    ELSE \* one key for every comparison: (class of the domain, magnitude)
         IF Class(a.dom, a.n) = Class(b.dom, b.n) THEN a.n < b.n
         ELSE addr[Class(a.dom, a.n)] < addr[Class(b.dom, b.n)]

RECURSIVE Cmp(_, _)
RECURSIVE LexBytes(_, _, _)
RECURSIVE LexTypes(_, _, _)
RECURSIVE LexElems(_, _, _)
Sign(x, y) == IF x < y THEN -1 ELSE IF x > y THEN 1 ELSE 0
LexBytes(a, b, i) ==
    IF i > Len(a) /\ i > Len(b) THEN 0
    ELSE IF i > Len(a) THEN -1 ELSE IF i > Len(b) THEN 1
    ELSE IF a[i] # b[i] THEN Sign(a[i], b[i]) ELSE LexBytes(a, b, i + 1)
LexTypes(a, b, i) ==
    IF i > Len(a) THEN 0
    ELSE IF TypeCode(a[i]) # TypeCode(b[i]) THEN Sign(TypeCode(a[i]), TypeCode(b[i])) ELSE LexTypes(a, b, i + 1)
LexElems(a, b, i) ==
    IF i > Len(a) THEN 0
    ELSE LET c == Cmp(a[i], b[i]) IN IF c # 0 THEN c ELSE LexElems(a, b, i + 1)
\* value::cmp for two values of the same type
Cmp(a, b) ==
    CASE a.k = "c" -> (IF ConstLess(a, b) THEN -1 ELSE IF ConstLess(b, a) THEN 1 ELSE 0)
      [] a.k = "s" -> LexBytes(a.b, b.b, 1)
      [] a.k = "q" -> IF Len(a.e) # Len(b.e) THEN Sign(Len(a.e), Len(b.e))
                      ELSE LET t == LexTypes(a.e, b.e, 1) IN IF t # 0 THEN t ELSE LexElems(a.e, b.e, 1)

\* the comparison words: A below, B on top
Rel(a, b) ==
    IF TypeCode(a) # TypeCode(b)
    THEN (IF PinnedCross THEN Sign(TypeCode(b), TypeCode(a)) ELSE Sign(TypeCode(a), TypeCode(b)))
    ELSE Cmp(a, b)

ConstPool == {C("dec", 1), C("hex", 1), C("dec", 3), C("hex", 3), C("bool", 1), C("T", 2), C("T", 4),
              C("STT", 2), C("STT_ARM", 2), C("STT_ARM", 13), C("STT_SPARC", 13)}
Pool == ConstPool \cup {
         S(<<>>), S(<<97>>), S(<<97, 98>>), S(<<98>>), S(<<97, 0>>), S(<<128>>),
         Q(<<>>), Q(<<C("dec", 1)>>), Q(<<C("dec", 2)>>), Q(<<C("dec", 1), C("dec", 2)>>), Q(<<S(<<97>>)>>),
         Q(<<Q(<<C("dec", 1)>>)>>), Q(<<C("dec", 1), S(<<97>>)>>), Q(<<S(<<97>>), C("dec", 1)>>)}

DomSeq == <<"dec", "hex", "bool", "T", "STT", "STT_ARM", "STT_SPARC">>
Init == \E p \in Permutations(1..Len(DomSeq)) : addr = [d \in Doms |-> p[CHOOSE i \in 1..Len(DomSeq) : DomSeq[i] = d]]
Next == UNCHANGED addr

Trichotomy == \A a, b \in Pool : Rel(a, b) \in {-1, 0, 1} /\ Rel(a, b) = -Rel(b, a)
Reflexive == \A a \in Pool : Rel(a, a) = 0
Triples == ConstPool \cup {Q(<<C("dec", 1)>>), Q(<<C("hex", 1)>>), Q(<<C("T", 2)>>), S(<<97>>)}
EqTransitive == \A a, b, c \in Triples : (Rel(a, b) = 0 /\ Rel(b, c) = 0) => Rel(a, c) = 0
LtTransitive == \A a, b, c \in Triples : (Rel(a, b) = -1 /\ Rel(b, c) = -1) => Rel(a, c) = -1
EqCongruent == \A a, b, c \in Triples : (Rel(a, b) = 0) => Rel(a, c) = Rel(b, c)
\* documented specifics
ArithByValue == \A a, b \in Pool : (a.k = "c" /\ b.k = "c" /\ a.dom \in Arith /\ b.dom \in Arith) => Rel(a, b) = Sign(a.n, b.n)
UnrelatedNeverEqual == \A a, b \in Pool : (a.k = "c" /\ b.k = "c" /\ Class(a.dom, a.n) # Class(b.dom, b.n)) => Rel(a, b) # 0
FamilyEqual == Rel(C("STT", 2), C("STT_ARM", 2)) = 0 /\ Rel(C("STT_ARM", 13), C("STT_SPARC", 13)) # 0
ShorterFirst == \A a, b \in Pool : (a.k = "q" /\ b.k = "q" /\ Len(a.e) < Len(b.e)) => Rel(a, b) = -1
\* singletons compare like their elements (element-wise)
ElementWise == \A a, b \in Pool : Rel(Q(<<a>>), Q(<<b>>)) = Rel(a, b)
=============================================================================
