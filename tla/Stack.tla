-------------------------------- MODULE Stack --------------------------------
(***************************************************************************)
(* The value stack's cached type profile (stack.hh): m_profile holds the   *)
(* type codes of the top W = 4 values, one byte each, top of stack in the  *)
(* lowest byte.  Overloaded words dispatch on it, so "word behaviour       *)
(* depends only on the values near the top of the stack, not on how the    *)
(* stack was built" (C11) needs                                             *)
(*      Profile = Recompute(the top four values)                            *)
(* after every push / pop / drop (n) / copy history.  The stack is         *)
(* abstracted to the sequence of type codes (top last).                    *)
(* PinnedDrop: drop (n) as at the pinned commit -- it is identical to the  *)
(* recomputation, kept for symmetry; MutPop selects seeded variants of     *)
(* pop used by the self-test.                                              *)
(***************************************************************************)
EXTENDS Naturals, Sequences, TLC

CONSTANTS Codes, MaxDepth, MutPop
W == 4

VARIABLES vals, prof, last
svars == <<vals, prof, last>>

\* TLC integers are 32 bit: the model packs the codes with radix 16 instead of 256 (codes < 16)
RADIX == 16
Byte(k) == RADIX ^ k
\* the type code stored at depth d (0 = top) of the profile word
ProfAt(p, d) == (p \div Byte(d)) % RADIX

Recompute(v) ==
    LET n == Len(v)
        C(d) == IF d < n THEN v[n - d] ELSE 0
    IN C(0) + C(1) * Byte(1) + C(2) * Byte(2) + C(3) * Byte(3)

\* m_profile <<= 8 (32 bit); m_profile |= code
Push(c) ==
    /\ Len(vals) < MaxDepth
    /\ vals' = Append(vals, c)
    /\ prof' = ((prof * RADIX) % Byte(4)) + c
    /\ last' = <<"push", c>>

\* m_profile >>= 8; refill the deepest byte from the value that is now W-th from the top
Pop ==
    /\ Len(vals) >= 1
    /\ LET v2 == SubSeq(vals, 1, Len(vals) - 1)
           shifted == prof \div RADIX
           refill == IF MutPop = "gt" THEN Len(v2) > W ELSE Len(v2) >= W
           code == v2[Len(v2) - (W - 1)]
       IN /\ vals' = v2
          /\ prof' = IF refill THEN shifted + code * Byte(W - 1) ELSE shifted
    /\ last' = <<"pop", 0>>

\* drop (n): erase and recompute from scratch
Drop(n) ==
    /\ n >= 1 /\ Len(vals) >= n
    /\ vals' = SubSeq(vals, 1, Len(vals) - n)
    /\ prof' = Recompute(SubSeq(vals, 1, Len(vals) - n))
    /\ last' = <<"drop", n>>

\* copy constructor: the profile is copied along
Copy == UNCHANGED <<vals, prof>> /\ last' = <<"copy", 0>>

Init == vals = <<>> /\ prof = 0 /\ last = <<"init", 0>>
Next == (\E c \in Codes : Push(c)) \/ Pop \/ (\E n \in 1..3 : Drop(n))
Spec == Init /\ [][Next]_svars

ProfileIsTopFour == prof = Recompute(vals)
View == <<vals, prof>>
=============================================================================
