------------------------------- MODULE Forests -------------------------------
(***************************************************************************)
(* Enumeration of small DWARF forests and the expected answers of the raw  *)
(* and cooked views (Dwarf.tla), written as replay vectors.                *)
(* Family "raw": every parent vector over N DIEs (several roots = several  *)
(*   units), attribute lists from a menu (repeated names, sibling          *)
(*   references), a leaf whose abbreviation claims children.               *)
(* Family "nav": a compile unit, partial units, and imported_unit DIEs at  *)
(*   every position (child of a root, nested inside a namespace, inside a  *)
(*   partial unit, the same unit imported twice).                          *)
(* Family "attr": specification / abstract_origin chains up to 3 hops,     *)
(*   both references on one DIE in either stored order, shadowing.         *)
(***************************************************************************)
EXTENDS Dwarf, Json, SequencesExt

CONSTANTS Family, N, OutFile, Shard, NShards

A(n, f, r) == [n |-> n, f |-> f, r |-> r]
Menu == <<
    <<>>,
    <<A("name", "string", 0)>>,
    <<A("name", "string", 0), A("line", "data1", 0)>>,
    <<A("name", "string", 0), A("line", "data1", 0), A("name", "string", 0), A("line", "data2", 0)>>,   \* repeated names
    <<A("ext", "flag_present", 0), A("line", "udata", 0)>>
>>

\* parent vectors: par[i] in 0..i-1 (0: a unit root); DIE 1 is always a root
ParVecs(n) == {p \in [1..n -> 0..(n - 1)] : p[1] = 0 /\ \A i \in 2..n : p[i] < i}
KidsOf(p, n, d) == SelectSeq([i \in 1..n |-> i], LAMBDA i: p[i] = d)
RootsOf(p, n) == KidsOf(p, n, 0)

RawForest(p, n) ==
    LET roots == RootsOf(p, n) IN
    \* units of every DWARF version; version 5 headers say what kind of unit follows: a type unit (with the
    \* signature and the offset of its type) and a skeleton unit (with the id of its split unit) have longer
    \* headers than a compile unit -- the first DIE is where the header ends, whatever its length
    [units |-> [j \in 1..Len(roots) |->
                  LET v == 2 + ((j + n) % 4) IN
                  [kind |-> IF v = 5 THEN (CASE (j + n) % 3 = 0 -> "tu" [] (j + n) % 3 = 1 -> "sk" [] OTHER -> "cu") ELSE "cu",
                   ver |-> v, root |-> roots[j], file |-> 0]],
     die |-> [d \in 1..n |->
                \* (a tag says nothing about the position of a DIE: some nested DIEs carry the tag of a unit)
                [tag |-> IF p[d] = 0 THEN "cu"
                         ELSE IF (d + 2 * n) % 5 = 0 THEN (IF d % 2 = 0 THEN "pu" ELSE "cu")
                         ELSE IF Len(KidsOf(p, n, d)) > 0 THEN "ns" ELSE "var",
                 kids |-> KidsOf(p, n, d),
                 attrs |-> Menu[1 + ((d + n) % Len(Menu))],
                 \* some leaves claim to have children although they have none (an empty child list), also
                 \* leaves that have following siblings
                 hc |-> Len(KidsOf(p, n, d)) > 0 \/ (d = n /\ n % 2 = 0) \/ (p[d] # 0 /\ (d + n) % 3 = 0)]]]

\* navigation family: roots are DIE 1 (compile unit) and possibly later ones (partial units); every leaf of
\* tag "var" may instead be an import of a LATER unit (acyclic): imp[d] = 0 or a root id
ImpChoices(p, n) ==
    LET roots == RootsOf(p, n)
        leaves == {d \in 2..n : p[d] # 0 /\ Len(KidsOf(p, n, d)) = 0}
        pus == {r \in RangeOf(roots) : r # 1}
        RECURSIVE RootOfD(_)
        RootOfD(d) == IF p[d] = 0 THEN d ELSE RootOfD(p[d])
    IN {f \in [leaves -> {0} \cup pus] :
           /\ \A d \in leaves : f[d] # 0 => f[d] > RootOfD(d)            \* only later units: no cycles
           /\ Cardinality({d \in leaves : f[d] # 0}) \in 1..3
           /\ \A r \in pus : \E d \in leaves : f[d] = r}                  \* every partial unit is imported
NavForest(p, n, f) ==
    LET roots == RootsOf(p, n) IN
    [units |-> [j \in 1..Len(roots) |-> [kind |-> IF roots[j] = 1 THEN "cu" ELSE "pu", ver |-> 4, root |-> roots[j], file |-> 0]],
     die |-> [d \in 1..n |->
                [tag |-> IF d = 1 THEN "cu" ELSE IF p[d] = 0 THEN "pu"
                         ELSE IF d \in DOMAIN f /\ f[d] # 0 THEN "imp"
                         ELSE IF Len(KidsOf(p, n, d)) > 0 THEN "ns" ELSE "var",
                 kids |-> KidsOf(p, n, d),
                 attrs |-> IF d \in DOMAIN f /\ f[d] # 0 THEN <<A("import", "ref_addr", f[d])>> ELSE <<A("name", "string", 0)>>,
                 hc |-> Len(KidsOf(p, n, d)) > 0]]]

\* attribute family: one compile unit, DIEs 2..n are its children; DIE d may refer to later DIEs through
\* specification / abstract_origin (stored in either order), own attributes from a small menu
AttrMenu == << <<>>, <<A("name", "string", 0)>>, <<A("line", "data1", 0)>>,
               <<A("name", "string", 0), A("decl", "flag_present", 0), A("sibling", "ref4", 0)>>,
               <<A("type", "ref4", 0), A("line", "data1", 0)>> >>
AttrTags == <<"sub", "callsite", "var", "gnucallsite", "inl", "st">>
RefChoices(n) ==
    {g \in [2..n -> [spec: 0..n, orig: 0..n, first: {"spec", "orig"}, m: 1..Len(AttrMenu)]] :
        /\ \A d \in 2..n : (g[d].spec = 0 \/ g[d].spec > d) /\ (g[d].orig = 0 \/ g[d].orig > d)
        /\ \A d \in 2..n : (g[d].spec = 0 \/ g[d].orig = 0) => g[d].first = "spec"
        /\ \E d \in 2..n : g[d].spec # 0 \/ g[d].orig # 0
        \* the first DIE shows what it integrates: it has at most a line of its own
        /\ g[2].m \in {1, 3}}
AttrForest(n, g) ==
    [units |-> <<[kind |-> "cu", ver |-> 4, root |-> 1, file |-> 0]>>,
     die |-> [d \in 1..n |->
                IF d = 1 THEN [tag |-> "cu", kids |-> [i \in 1..(n - 1) |-> i + 1], attrs |-> <<A("name", "string", 0)>>, hc |-> TRUE]
                ELSE LET sp == IF g[d].spec # 0 THEN <<A("spec", "ref4", g[d].spec)>> ELSE <<>>
                         og == IF g[d].orig # 0 THEN <<A("orig", "ref4", g[d].orig)>> ELSE <<>>
                         refs == IF g[d].first = "spec" THEN sp \o og ELSE og \o sp
                         \* DW_AT_sibling must point to the next sibling: the last child cannot have one
                         own == IF d = n /\ g[d].m = 4 THEN AttrMenu[2] ELSE AttrMenu[g[d].m]
                     \* (integration does not ask what kind of DIE it is looking at: call sites, inlined
                     \* subroutines, variables, types, subprograms by turns)
                     IN [tag |-> AttrTags[((d + n) % Len(AttrTags)) + 1], kids |-> <<>>, attrs |-> refs \o own, hc |-> FALSE]]]

\* The same with a dwz alt file (.gnu_debugaltlink): the units marked file = 1 are stored in a second ELF file,
\* references into it use DW_FORM_GNU_ref_alt, and its offsets start again from 0 -- the DIEs of the two files
\* sit at colliding offsets.  The raw view lists the units of the alt file after those of the main file.
\* "altnav": the partial units of a navigation forest live in the alt file.
AltNavForest(p, n, f) ==
    LET F == NavForest(p, n, f) IN
    [F EXCEPT !.units = [j \in 1..Len(F.units) |-> [F.units[j] EXCEPT !.file = IF F.units[j].kind = "pu" THEN 1 ELSE 0]]]
\* "altattr": DIEs 2..s are children of the compile unit (DIE 1), DIE s+1 is the root of a partial unit in the alt
\* file with the children s+2..n; specification / abstract_origin point to later DIEs, also across the files
AltAttrForest(n, g, s) ==
    LET F == AttrForest(n, g) IN
    [units |-> <<[kind |-> "cu", ver |-> 4, root |-> 1, file |-> 0], [kind |-> "pu", ver |-> 4, root |-> s + 1, file |-> 1]>>,
     die |-> [d \in 1..n |->
                IF d = 1 THEN [F.die[1] EXCEPT !.kids = [i \in 1..(s - 1) |-> i + 1]]
                ELSE IF d = s + 1 THEN [tag |-> "pu", kids |-> [i \in 1..(n - s - 1) |-> s + 1 + i], attrs |-> <<A("name", "string", 0)>>, hc |-> TRUE]
                ELSE \* a sibling attribute must stay within the DIE's own unit: replace that menu entry
                     [F.die[d] EXCEPT !.attrs = SelectSeq(@, LAMBDA a: a.n # "sibling")]]]
\* built up per DIE (filtering RefChoices would enumerate 10^13 functions): the alt root refers to nothing and
\* nothing refers to it; menus 1..3
AltLater(d, n, s) == {x \in (d + 1)..n : x # s + 1}
AltOne(d, n, s) ==
    IF d = s + 1 THEN {[spec |-> 0, orig |-> 0, first |-> "spec", m |-> 2]}
    ELSE {r \in [spec: {0} \cup AltLater(d, n, s), orig: {0} \cup AltLater(d, n, s), first: {"spec", "orig"}, m: 1..3] :
             /\ (r.spec = 0 \/ r.orig = 0) => r.first = "spec"
             /\ d = 2 => r.m \in {1, 3}}
RECURSIVE AltProd(_, _, _)
AltProd(d, n, s) == IF d > n THEN {<<>>} ELSE {<<r>> \o rest : r \in AltOne(d, n, s), rest \in AltProd(d + 1, n, s)}
AltRefChoices(n, s) ==
    {g \in {[d \in 2..n |-> sq[d - 1]] : sq \in AltProd(2, n, s)} :
        \E d \in 2..s : g[d].spec > s \/ g[d].orig > s}            \* some reference crosses into the alt file

\* "cyc": malformed but plausible -- specification / abstract_origin references that lead back (to the DIE
\* itself, to an earlier DIE): everything must still terminate, and integrate what is reachable once
CycRefChoices(n) ==
    {g \in [2..n -> [spec: {0} \cup 2..n, orig: {0} \cup 2..n, first: {"spec", "orig"}, m: 1..3]] :
        /\ \A d \in 2..n : (g[d].spec = 0 \/ g[d].orig = 0) => g[d].first = "spec"
        /\ \E d \in 2..n : (g[d].spec # 0 /\ g[d].spec <= d) \/ (g[d].orig # 0 /\ g[d].orig <= d)}

\* "chain": one long chain of alternating specification / abstract_origin references (N - 2 hops), the name at
\* its end and a line number three quarters down: "chains of any length"
ChainG(n) == [d \in 2..n |-> [spec |-> IF d < n /\ d % 2 = 0 THEN d + 1 ELSE 0, orig |-> IF d < n /\ d % 2 = 1 THEN d + 1 ELSE 0,
                              first |-> "spec", m |-> IF d = n THEN 2 ELSE IF d = (3 * n) \div 4 THEN 3 ELSE 1]]

\* "navchain": a compile unit that imports a partial unit that imports a partial unit ... N / 2 units deep,
\* with a variable in the last one (import chains of any depth)
NavChainP(n) == [d \in 1..n |-> IF d % 2 = 1 THEN 0 ELSE d - 1]
NavChainF(n) == [d \in {x \in 2..n : x % 2 = 0} |-> IF d < n THEN d + 1 ELSE 0]

\* "navcu": the imported units are ordinary compile units (DWARF 4, 3.1.2: "the normal or partial compilation
\* unit"): inlined where they are imported, and listed as units of their own as well
NavCuForest(p, n, f) ==
    LET F == NavForest(p, n, f) IN
    [units |-> [j \in 1..Len(F.units) |-> [F.units[j] EXCEPT !.kind = "cu"]],
     die |-> [d \in 1..n |-> IF F.die[d].tag = "pu" THEN [F.die[d] EXCEPT !.tag = "cu"] ELSE F.die[d]]]

\* "navcyc": imports that lead back -- a unit importing itself, two units importing each other (malformed, but
\* nothing may hang on it)
CycImpChoices(p, n) ==
    LET roots == RootsOf(p, n)
        leaves == {d \in 2..n : p[d] # 0 /\ Len(KidsOf(p, n, d)) = 0}
        RECURSIVE RootOfD(_)
        RootOfD(d) == IF p[d] = 0 THEN d ELSE RootOfD(p[d])
    IN {f \in [leaves -> {0} \cup RangeOf(roots)] :
           /\ Cardinality({d \in leaves : f[d] # 0}) \in 1..3
           /\ \E d \in leaves : f[d] # 0 /\ f[d] <= RootOfD(d)}          \* some import leads back
NavCycForest(p, n, f) ==
    LET F == NavForest(p, n, f) IN
    \* the first unit stays a compile unit also when something imports it
    [F EXCEPT !.die[1].tag = "cu"]

ForestSet ==
    CASE Family = "navcyc" -> UNION {{NavCycForest(p, N, f) : f \in CycImpChoices(p, N)} : p \in {q \in ParVecs(N) : Cardinality(RangeOf(RootsOf(q, N))) \in 1..2}}
      [] Family = "navcu" -> UNION {{NavCuForest(p, N, f) : f \in ImpChoices(p, N)} : p \in {q \in ParVecs(N) : Cardinality(RangeOf(RootsOf(q, N))) \in 2..3}}
      [] Family = "navchain" -> {NavForest(NavChainP(N), N, NavChainF(N))}
      [] Family = "chain" -> {AttrForest(N, ChainG(N))}
      [] Family = "cyc" -> {AttrForest(N, g) : g \in CycRefChoices(N)}
      [] Family = "altnav" -> UNION {{AltNavForest(p, N, f) : f \in ImpChoices(p, N)} : p \in {q \in ParVecs(N) : Cardinality(RangeOf(RootsOf(q, N))) \in 2..3}}
      [] Family = "altattr" -> UNION {{AltAttrForest(N, g, s) : g \in AltRefChoices(N, s)} : s \in 2..(N - 2)}
      [] Family = "raw" -> {RawForest(p, N) : p \in ParVecs(N)}
      \* nesting far deeper than a compiler produces: one chain of N DIEs, the same with a leaf next to every
      \* link, and two units of half the depth
      [] Family = "rawdeep" -> {RawForest([i \in 1..N |-> i - 1], N),
                                RawForest([i \in 1..N |-> IF i = 1 THEN 0 ELSE IF i % 2 = 0 THEN (IF i = 2 THEN 1 ELSE i - 2) ELSE i - 1], N),
                                RawForest([i \in 1..N |-> IF i = 1 \/ i = N \div 2 + 1 THEN 0 ELSE i - 1], N)}
      [] Family = "nav" -> UNION {{NavForest(p, N, f) : f \in ImpChoices(p, N)} : p \in {q \in ParVecs(N) : Cardinality(RangeOf(RootsOf(q, N))) \in 2..3}}
      [] Family = "attr" -> {AttrForest(N, g) : g \in RefChoices(N)}

\* expected answers
CJ(v) == [d |-> v.d, ch |-> v.ch]
Expect(F) ==
    [forest |-> [units |-> F.units, die |-> [i \in 1..Len(F.die) |-> F.die[i]]],
     raw_preorder |-> RawPreorder(F),
     raw_parent |-> [i \in 1..Len(F.die) |-> RawParent(F, i)],
     unit_dies |-> [i \in 1..Len(F.units) |-> UnitDies(F, i)],
     cooked_entries |-> [i \in 1..Len(CookedEntries(F)) |-> CJ(CookedEntries(F)[i])],
     cooked_kids |-> [i \in 1..Len(CookedEntries(F)) |-> [j \in 1..Len(CookedKids(F, CookedEntries(F)[i])) |-> CJ(CookedKids(F, CookedEntries(F)[i])[j])]],
     cooked_parent |-> [i \in 1..Len(CookedEntries(F)) |-> [j \in 1..Len(CookedParent(F, CookedEntries(F)[i])) |-> CJ(CookedParent(F, CookedEntries(F)[i])[j])]],
     cooked_root |-> [i \in 1..Len(CookedEntries(F)) |-> CJ(CookedRoot(F, CookedEntries(F)[i]))],
     cooked_units |-> CookedUnits(F),
     cooked_attrs |-> [d \in 1..Len(F.die) |-> [j \in 1..Len(CookedAttrs(F, d)) |-> [n |-> CookedAttrs(F, d)[j].a.n, of |-> CookedAttrs(F, d)[j].of]]],
     ok |-> [raw |-> RawOK(F), nav |-> NavOK(F), attr |-> AttrOK(F)]]

\* the same record for a forest without imports and references, where the cooked view is the raw one (the deep
\* forests: the cooked mechanism walk of Dwarf.tla carries import chains around and is too slow for them)
UnitRootOf(F, d) == LET RECURSIVE Up(_) Up(x) == IF RawParent(F, x) = 0 THEN x ELSE Up(RawParent(F, x)) IN Up(d)
ExpectRaw(F) ==
    LET pre == RawPreorder(F) IN
    [forest |-> [units |-> F.units, die |-> [i \in 1..Len(F.die) |-> F.die[i]]],
     raw_preorder |-> pre,
     raw_parent |-> [i \in 1..Len(F.die) |-> RawParent(F, i)],
     unit_dies |-> [i \in 1..Len(F.units) |-> UnitDies(F, i)],
     cooked_entries |-> [i \in 1..Len(pre) |-> [d |-> pre[i], ch |-> <<>>]],
     cooked_kids |-> [i \in 1..Len(pre) |-> [j \in 1..Len(F.die[pre[i]].kids) |-> [d |-> F.die[pre[i]].kids[j], ch |-> <<>>]]],
     cooked_parent |-> [i \in 1..Len(pre) |-> IF RawParent(F, pre[i]) = 0 THEN <<>> ELSE <<[d |-> RawParent(F, pre[i]), ch |-> <<>>]>>],
     cooked_root |-> [i \in 1..Len(pre) |-> [d |-> UnitRootOf(F, pre[i]), ch |-> <<>>]],
     cooked_units |-> CookedUnits(F),
     cooked_attrs |-> [d \in 1..Len(F.die) |-> [j \in 1..Len(F.die[d].attrs) |-> [n |-> F.die[d].attrs[j].n, of |-> d]]],
     ok |-> [raw |-> RawOK(F), nav |-> TRUE, attr |-> TRUE]]

All == SetToSeq(ForestSet)
Mine == SelectSeq([j \in 1..Len(All) |-> [j |-> j, f |-> All[j]]], LAMBDA r: r.j % NShards = Shard)
ASSUME /\ ndJsonSerialize(OutFile, [j \in 1..Len(Mine) |-> IF Family = "rawdeep" THEN ExpectRaw(Mine[j].f) ELSE Expect(Mine[j].f)])
       /\ PrintT(<<"FORESTS", Len(All), Len(Mine)>>)
=============================================================================
