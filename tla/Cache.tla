------------------------------- MODULE Cache -------------------------------
(***************************************************************************)
(* The query caches that a Dwarf value carries with it (libzwerg/cache.cc, *)
(* held by dwfl_context and therefore shared by every copy of the value    *)
(* and by every execution that the value is fed to):                       *)
(*   root_cache::is_root   -- one list of unit-root offsets per Dwarf,     *)
(*                            filled on the first question about it        *)
(*   parent_cache::find    -- one (offset, parent offset) table per        *)
(*                            (Dwarf, unit), filled on the first question  *)
(*                            about a DIE of that unit                     *)
(* MEANING: the answer to a question is a function of the DIE alone.       *)
(* MECHANISM: fill-on-miss as in cache.cc; the state survives across       *)
(* executions.  C12 wants every history of questions to be answered as a   *)
(* fresh process would answer each of them.                                *)
(*                                                                         *)
(* The Pinned constants switch on incomplete fills (what a realistic       *)
(* regression looks like) to show that the invariants are not vacuous.     *)
(***************************************************************************)
EXTENDS Naturals, Sequences, FiniteSets, TLC

CONSTANTS NUnits,          \* units of the one Dwarf
          ShapeId,         \* which tree every unit has (TLC configuration files have no tuples)
          MaxOps,          \* bound on the number of questions in a history
          PinnedRootFrom,  \* mutant: the root list is filled from the unit of the asking DIE onwards
          PinnedParSub     \* mutant: the parent table is filled from the asking DIE's subtree only

\* Shape[d] = parent of DIE d (0 for the root, DIE 1)
Shapes == << <<0, 1, 2, 1>>, <<0, 1, 1>>, <<0, 1, 2, 3>>, <<0>> >>
Shape == Shapes[ShapeId]
Dies == 1..Len(Shape)
Units == 1..NUnits
Questions == {[op |-> o, u |-> u, d |-> d] : o \in {"root", "parent"}, u \in Units, d \in Dies}

\* MEANING
IsRootDie(u, d) == d = 1
ParentOfDie(u, d) == Shape[d]
Meaning(qn) == IF qn.op = "root" THEN (IF IsRootDie(qn.u, qn.d) THEN 1 ELSE 0) ELSE ParentOfDie(qn.u, qn.d)

\* MECHANISM
VARIABLES roots,     \* <<>> (no entry for this Dwarf) or <<set of <<unit, die>> >>
          par,       \* par[u]: <<>> or <<[die -> parent]>>; missing dies = not in the table
          last,      \* the last question and the answer given: <<>> or <<[q, a]>>
          n          \* questions so far
vars == <<roots, par, last, n>>

RECURSIVE Subtree(_)
Subtree(d) == {d} \cup UNION {Subtree(c) : c \in {c \in Dies : Shape[c] = d}}

FillRoots(u) == IF PinnedRootFrom THEN {<<v, 1>> : v \in u..NUnits} ELSE {<<v, 1>> : v \in Units}
FillPar(u, d) == LET ds == IF PinnedParSub THEN Subtree(d) ELSE Dies IN [x \in ds |-> Shape[x]]

Init == roots = <<>> /\ par = [u \in Units |-> <<>>] /\ last = <<>> /\ n = 0

AskRoot(u, d) ==
    /\ n < MaxOps
    /\ roots' = IF roots = <<>> THEN <<FillRoots(u)>> ELSE roots
    /\ last' = <<[q |-> [op |-> "root", u |-> u, d |-> d], a |-> IF <<u, d>> \in roots'[1] THEN 1 ELSE 0]>>
    /\ n' = n + 1
    /\ UNCHANGED par

\* parent_cache::find asserts that the DIE is in the table: a miss is answer 99 ("assertion")
AskParent(u, d) ==
    /\ n < MaxOps
    /\ par' = IF par[u] = <<>> THEN [par EXCEPT ![u] = <<FillPar(u, d)>>] ELSE par
    /\ last' = <<[q |-> [op |-> "parent", u |-> u, d |-> d],
                  a |-> IF d \in DOMAIN par'[u][1] THEN par'[u][1][d] ELSE 99]>>
    /\ n' = n + 1
    /\ UNCHANGED roots

Next == \E u \in Units, d \in Dies : AskRoot(u, d) \/ AskParent(u, d)
Spec == Init /\ [][Next]_vars

\* C12: whatever was asked before, the answer is the fresh answer
HistoryIndependent == last # <<>> => last[1].a = Meaning(last[1].q)
\* "caches keyed by (Dwarf, unit) are append-only"
AppendOnly == [][/\ (roots # <<>> => roots' = roots)
                 /\ \A u \in Units : par[u] # <<>> => par'[u] = par[u]]_vars
=============================================================================
