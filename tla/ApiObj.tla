------------------------------- MODULE ApiObj -------------------------------
(***************************************************************************)
(* The objects of the C API (libzwerg.h) and who owns them.                *)
(*                                                                         *)
(* A client creates values (zw_value_init_const_i64 / _u64 / _str_len,     *)
(* zw_value_clone, zw_value_const_format), stacks (zw_stack_init), puts    *)
(* values on stacks by copy (zw_stack_push) or by handing them over        *)
(* (zw_stack_push_take), reads stacks (zw_stack_depth, zw_stack_at and the *)
(* value accessors), runs a query on a stack (zw_query_execute: the input  *)
(* stack stays the client's and stays as it is; every stack that           *)
(* zw_result_next hands out is the client's) and destroys what it owns.    *)
(*                                                                         *)
(* State: vals, a sequence of value records (the index is the identity of  *)
(* the object), each owned by the client ("c"), by a stack ("s", k) or     *)
(* dead; stks, a sequence of stack records with the identities of their    *)
(* values, bottom first.  Apply(st, op) is the meaning of one call; the    *)
(* state machine below explores every call sequence within the bounds and  *)
(* checks the ownership invariants; ApiObjGen enumerates call sequences    *)
(* with the expected contents for replay on the real library (under the    *)
(* sanitizers: a leak or a double free is an ownership error of the        *)
(* library or of this model).                                              *)
(***************************************************************************)
EXTENDS Naturals, Sequences, FiniteSets, TLC

CONSTANTS MaxVals, MaxStks, MaxOps,
          CloneRenumbers,  \* libzwerg.h: zw_value_clone "returns a copy of VALUE, with a new position POS" (TRUE); the
                           \* library ignores POS and the copy keeps the position of the original (FALSE) -- a named
                           \* deviation of the code from its header, outside the listed properties (DESIGN.md 7)
          Mut              \* "none" | "take-keeps" (push_take leaves the value with the client as well) |
                           \* "push-shares" (push puts the value itself on the stack): self-tests of OwnershipOK

Payloads == {"0", "7", "-1", "imin", "imax", "umax"}      \* integers by name (TLC integers are 32 bit)
SignedOK(p) == p \in {"0", "7", "-1", "imin", "imax"}
UnsignedOK(p) == p \in {"0", "7", "imax", "umax"}
Doms == {"dec", "hex", "bool"}
Strs == {"", "ab", "a-NUL-b"}                             \* the last one holds a NUL byte (zw_value_init_str_len)
Poss == {0, 3}
Queries == {"", "swap", "drop", "dup"}

\* smaller menus for the exhaustive exploration (cfg: Payloads <- MCPayloads ...)
MCPayloads == {"7", "umax"}
MCDoms == {"hex"}
MCStrs == {"ab"}
MCQueries == {"", "dup"}

Init0 == [vals |-> <<>>, stks |-> <<>>]

LiveVals(st) == {i \in 1..Len(st.vals) : st.vals[i].own # <<"dead">>}
ClientVals(st) == {i \in 1..Len(st.vals) : st.vals[i].own = <<"c">>}
LiveStks(st) == {k \in 1..Len(st.stks) : st.stks[k].live}

NewVal(st, rec) == [st EXCEPT !.vals = Append(@, rec)]
Copy(st, v, pos, own) == [st.vals[v] EXCEPT !.pos = pos, !.own = own]

\* the stacks a query yields for an input (bottom first); the values are copies, numbered as they were
Outputs(q, items) ==
    CASE q = "" -> <<items>>
      [] q = "swap" -> IF Len(items) < 2 THEN <<>>
                       ELSE <<SubSeq(items, 1, Len(items) - 2) \o <<items[Len(items)], items[Len(items) - 1]>>>>
      [] q = "drop" -> IF Len(items) < 1 THEN <<>> ELSE <<SubSeq(items, 1, Len(items) - 1)>>
      [] q = "dup" -> IF Len(items) < 1 THEN <<>> ELSE <<Append(items, items[Len(items)])>>
\* (a query on a stack that is too shallow fails at run time: zw_result_next reports it, nothing is handed out)

Enabled(st, op) ==
    CASE op[1] \in {"i64", "u64", "str"} -> Len(st.vals) < MaxVals
      [] op[1] = "clone" -> op[2] \in LiveVals(st) /\ Len(st.vals) < MaxVals
      [] op[1] = "fmt" -> op[2] \in LiveVals(st) /\ st.vals[op[2]].kind = "cst" /\ Len(st.vals) < MaxVals
      [] op[1] = "vdestroy" -> op[2] \in ClientVals(st)
      [] op[1] = "snew" -> Len(st.stks) < MaxStks
      [] op[1] = "push" -> op[2] \in LiveStks(st) /\ op[3] \in LiveVals(st) /\ Len(st.vals) < MaxVals
      [] op[1] = "take" -> op[2] \in LiveStks(st) /\ op[3] \in ClientVals(st)
      [] op[1] = "sdestroy" -> op[2] \in LiveStks(st)
      [] op[1] = "exec" -> /\ op[3] \in LiveStks(st) /\ Len(st.stks) < MaxStks
                           /\ Len(st.vals) + Len(st.stks[op[3]].items) + 1 <= MaxVals
      [] OTHER -> FALSE

Apply(st, op) ==
    CASE op[1] = "i64" -> NewVal(st, [kind |-> "cst", sgn |-> TRUE, v |-> op[2], dom |-> op[3], pos |-> op[4], own |-> <<"c">>])
      [] op[1] = "u64" -> NewVal(st, [kind |-> "cst", sgn |-> FALSE, v |-> op[2], dom |-> op[3], pos |-> op[4], own |-> <<"c">>])
      [] op[1] = "str" -> NewVal(st, [kind |-> "str", sgn |-> FALSE, v |-> op[2], dom |-> "-", pos |-> op[3], own |-> <<"c">>])
      \* "Returns a copy of VALUE, with a new position POS"
      [] op[1] = "clone" -> NewVal(st, Copy(st, op[2], IF CloneRenumbers THEN op[3] ELSE st.vals[op[2]].pos, <<"c">>))
      \* a string with the rendering of the constant, numbered 0; the text is computed by the replay (Render.tla)
      [] op[1] = "fmt" -> NewVal(st, [kind |-> "fmt", sgn |-> st.vals[op[2]].sgn, v |-> st.vals[op[2]].v,
                                       dom |-> st.vals[op[2]].dom, pos |-> 0, own |-> <<"c">>])
      [] op[1] = "vdestroy" -> [st EXCEPT !.vals[op[2]].own = <<"dead">>]
      [] op[1] = "snew" -> [st EXCEPT !.stks = Append(@, [items |-> <<>>, live |-> TRUE])]
      \* the stack gets a copy; the client keeps the value
      [] op[1] = "push" -> LET n == Len(st.vals) + 1 IN
                           IF Mut = "push-shares" THEN [st EXCEPT !.stks[op[2]].items = Append(@, op[3])]
                           ELSE [vals |-> Append(st.vals, Copy(st, op[3], st.vals[op[3]].pos, <<"s", op[2]>>)),
                                 stks |-> [st.stks EXCEPT ![op[2]].items = Append(@, n)]]
      \* the stack gets the value itself
      [] op[1] = "take" -> [vals |-> IF Mut = "take-keeps" THEN st.vals ELSE [st.vals EXCEPT ![op[3]].own = <<"s", op[2]>>],
                            stks |-> [st.stks EXCEPT ![op[2]].items = Append(@, op[3])]]
      [] op[1] = "sdestroy" -> [vals |-> [i \in 1..Len(st.vals) |->
                                            IF st.vals[i].own = <<"s", op[2]>> THEN [st.vals[i] EXCEPT !.own = <<"dead">>] ELSE st.vals[i]],
                                stks |-> [st.stks EXCEPT ![op[2]].live = FALSE]]
      \* execute, pull everything, destroy the result set: the stacks handed out are new and the client's
      [] op[1] = "exec" ->
            LET outs == Outputs(op[2], st.stks[op[3]].items) IN
            IF Len(outs) = 0 THEN st
            ELSE LET k == Len(st.stks) + 1
                     src == outs[1]
                     base == Len(st.vals)
                 IN [vals |-> st.vals \o [j \in 1..Len(src) |-> Copy(st, src[j], st.vals[src[j]].pos, <<"s", k>>)],
                     stks |-> Append(st.stks, [items |-> [j \in 1..Len(src) |-> base + j], live |-> TRUE])]

Ops(st) ==
    {<<"i64", p, d, q>> : p \in {x \in Payloads : SignedOK(x)}, d \in Doms, q \in Poss}
    \cup {<<"u64", p, d, q>> : p \in {x \in Payloads : UnsignedOK(x)}, d \in Doms, q \in Poss}
    \cup {<<"str", s, q>> : s \in Strs, q \in Poss}
    \cup {<<"clone", v, q>> : v \in LiveVals(st), q \in Poss}
    \cup {<<"fmt", v>> : v \in LiveVals(st)}
    \cup {<<"vdestroy", v>> : v \in ClientVals(st)}
    \cup {<<"snew">>}
    \cup {<<"push", k, v>> : k \in LiveStks(st), v \in LiveVals(st)}
    \cup {<<"take", k, v>> : k \in LiveStks(st), v \in ClientVals(st)}
    \cup {<<"sdestroy", k>> : k \in LiveStks(st)}
    \cup {<<"exec", q, k>> : q \in Queries, k \in LiveStks(st)}

-----------------------------------------------------------------------------
(* the state machine, for TLC *)
VARIABLES st, n
Init == st = Init0 /\ n = 0
Next == /\ n < MaxOps
        /\ \E op \in Ops(st) : Enabled(st, op) /\ st' = Apply(st, op) /\ n' = n + 1
Spec == Init /\ [][Next]_<<st, n>>

\* every value has exactly one owner: a live value owned by a stack is on that stack exactly once, on no other,
\* and the stack is live; a value of the client is on no stack; nothing of a dead stack is live
OwnershipOK ==
    /\ \A i \in LiveVals(st) :
         LET onstk(k) == {j \in 1..Len(st.stks[k].items) : st.stks[k].items[j] = i} IN
         IF st.vals[i].own = <<"c">> THEN \A k \in 1..Len(st.stks) : ~st.stks[k].live \/ onstk(k) = {}
         ELSE /\ st.vals[i].own[2] \in LiveStks(st)
              /\ Cardinality(onstk(st.vals[i].own[2])) = 1
              /\ \A k \in LiveStks(st) \ {st.vals[i].own[2]} : onstk(k) = {}
    /\ \A k \in LiveStks(st) : \A j \in 1..Len(st.stks[k].items) : st.stks[k].items[j] \in LiveVals(st)
\* an input stack is not changed by executing a query on it, and no call changes a value that exists
Stable == [][\A i \in 1..Len(st.vals) : st.vals[i].own # <<"dead">> =>
                 /\ st'.vals[i].kind = st.vals[i].kind /\ st'.vals[i].v = st.vals[i].v
                 /\ st'.vals[i].dom = st.vals[i].dom /\ st'.vals[i].pos = st.vals[i].pos]_<<st, n>>
=============================================================================
