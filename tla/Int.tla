-------------------------------- MODULE Int --------------------------------
(***************************************************************************)
(* Integer arithmetic of libzwerg (int.cc) transcribed for a word of W     *)
(* bits (TwoW = 2^W, HalfW = 2^(W-1)).  A number is a record               *)
(*    [u |-> bits as a natural number < TwoW, sg |-> TRUE iff the signed   *)
(*     interpretation applies]                                             *)
(* exactly like mpz_class {m_u/m_i, m_sign}.  Results are records          *)
(*    [ok |-> BOOLEAN, u |-> ..., sg |-> ..., br |-> branch label].        *)
(* MEANING: exact integer arithmetic on Val(x), floor division, remainder  *)
(* with the divisor's sign; a result exists iff it lies in                 *)
(* [-HalfW, TwoW-1].                                                       *)
(*                                                                         *)
(* The module is written so that both TLC (small W, exhaustive) and        *)
(* Apalache (W = 64, symbolic) can read it: no recursion, wrap-around is   *)
(* the one-step piecewise-linear Wrap1 wherever a single carry can occur.  *)
(* PinnedNeg / PinnedMod select the behaviour of the pinned commit for the *)
(* two defects that have since been repaired.                              *)
(***************************************************************************)
EXTENDS Integers

CONSTANTS
    \* @type: Int;
    TwoW,
    \* @type: Int;
    HalfW,
    \* @type: Bool;
    PinnedNeg,
    \* @type: Bool;
    PinnedMod

\* @typeAlias: num = { u: Int, sg: Bool };
\* @typeAlias: res = { ok: Bool, u: Int, sg: Bool, br: Str };
IntAliases == TRUE

MaxS == HalfW - 1        \* INT64_MAX
MinS == -HalfW           \* INT64_MIN

\* @type: ($num) => Int;
Val(x) == IF x.sg /\ x.u >= HalfW THEN x.u - TwoW ELSE x.u
\* the int64_t view m_i of the bits
\* @type: ($num) => Int;
AsI(x) == IF x.u >= HalfW THEN x.u - TwoW ELSE x.u

\* one-step wrap-around of a value in (-TwoW, 2*TwoW)
\* @type: (Int) => Int;
Wrap1(v) == IF v >= TwoW THEN v - TwoW ELSE IF v < 0 THEN v + TwoW ELSE v

\* @type: (Int, Bool, Str) => $res;
Ok(u, sg, br) == [ok |-> TRUE, u |-> u, sg |-> sg, br |-> br]
\* @type: (Str) => $res;
Err(br) == [ok |-> FALSE, u |-> 0, sg |-> FALSE, br |-> br]
\* @type: ($res) => $num;
Num(r) == [u |-> r.u, sg |-> r.sg]
\* @type: (Int, Bool) => $num;
Mk(u, sg) == [u |-> u, sg |-> sg]

\* @type: ($num) => Bool;
IsNeg(x) == x.sg /\ AsI(x) < 0

\* operator<
\* @type: ($num, $num) => Bool;
Less(a, b) ==
    IF a.sg = b.sg
    THEN (IF a.sg THEN AsI(a) < AsI(b) ELSE a.u < b.u)
    ELSE IF IsNeg(a) THEN TRUE
    ELSE IF IsNeg(b) THEN FALSE
    ELSE a.u < b.u

\* unary operator-
\* @type: ($num) => $res;
Neg(v) ==
    IF v.sg
    THEN IF AsI(v) = MinS THEN Ok(HalfW, FALSE, "neg.min")
         ELSE IF AsI(v) >= 0 /\ ~PinnedNeg THEN Ok(Wrap1(-AsI(v)), TRUE, "neg.spos")
         ELSE Ok(Wrap1(-AsI(v)), FALSE, "neg.s")
    ELSE IF v.u > HalfW THEN Err("neg.ovf")
         ELSE Ok(Wrap1(-v.u), TRUE, "neg.u")

\* the `uns:' tail of operator+
\* @type: ($num, $num) => $res;
AddUns(a, b) ==
    LET r == Wrap1(a.u + b.u) IN
    IF r < a.u THEN Err("add.uns.ovf") ELSE Ok(r, FALSE, "add.uns")

\* operator- restricted to both operands non-negative (first branch)
\* @type: ($num, $num) => $res;
SubNN(a, b) ==
    IF a.u > b.u THEN Ok(a.u - b.u, FALSE, "sub.nn.pos")
    ELSE LET r == b.u - a.u IN
         IF r > HalfW THEN Err("sub.nn.ovf") ELSE Ok(Wrap1(-r), TRUE, "sub.nn.neg")

\* @type: ($num) => Bool;
NonNeg(x) == ~x.sg \/ AsI(x) >= 0

\* operator+ and operator- call each other at most two deep; unrolled.
\* operator- with v2 >= 0 and v1 < 0 (last branch)
\* @type: ($num, $num) => $res;
SubNegPos(a, b) ==
    \* v2.m_u > v1.m_u - INT64_MIN  (unsigned arithmetic)
    IF b.u > Wrap1(a.u - HalfW) THEN Err("sub.np.ovf")
    ELSE Ok(Wrap1(AsI(a) - AsI(b) + (IF AsI(a) - AsI(b) < -TwoW THEN TwoW ELSE 0)), TRUE, "sub.np")

\* operator+ for operands of which none is negative, or both signed
\* @type: ($num, $num) => $res;
AddCore(a, b) ==
    IF a.sg /\ b.sg
    THEN LET x == AsI(a) y == AsI(b) IN
         IF (x <= 0 /\ y >= 0) \/ (y <= 0 /\ x >= 0) THEN Ok(Wrap1(x + y), TRUE, "add.ss.mixed")
         ELSE IF x >= 0 /\ y >= 0 THEN AddUns(a, b)
         ELSE IF x = MinS \/ y = MinS THEN Err("add.ss.min")
         ELSE LET ur == (-x) + (-y) IN
              IF ur > HalfW THEN Err("add.ss.ovf") ELSE Ok(Wrap1(-ur), TRUE, "add.ss.neg")
    ELSE AddUns(a, b)

\* @type: ($num, $num) => $res;
Add(a, b) ==
    IF a.sg = b.sg THEN AddCore(a, b)
    ELSE IF IsNeg(a)
    THEN \* v2 - -v1: -v1 is non-negative, v2 is unsigned
         LET n == Neg(a) IN SubNN(b, Num(n))
    ELSE IF IsNeg(b)
    THEN LET n == Neg(b) IN SubNN(a, Num(n))
    ELSE AddUns(a, b)

\* @type: ($num, $num) => $res;
Sub(a, b) ==
    IF NonNeg(a) /\ NonNeg(b) THEN SubNN(a, b)
    ELSE IF IsNeg(b)
    THEN \* v1 + -v2
         LET n == Neg(b) IN Add(a, Num(n))
    ELSE SubNegPos(a, b)

\* operator*
\* @type: ($num, $num) => $res;
Mul(a0, b0) ==
    LET bothneg == IsNeg(a0) /\ IsNeg(b0)
        a == IF bothneg THEN Num(Neg(a0)) ELSE a0
        b == IF bothneg THEN Num(Neg(b0)) ELSE b0
    IN IF NonNeg(a) /\ NonNeg(b)
       THEN LET r == (a.u * b.u) % TwoW IN
            IF a.u # 0 /\ r \div a.u # b.u THEN Err("mul.pp.ovf") ELSE Ok(r, FALSE, "mul.pp")
       ELSE LET v1 == IF IsNeg(a) THEN b ELSE a      \* after the swap v2 is the negative one
                v2 == IF IsNeg(a) THEN a ELSE b
                m == Num(Neg(v2)).u
                r == (m * v1.u) % TwoW
            IN IF m # 0 /\ r \div m # v1.u THEN Err("mul.pn.ovf1")
               ELSE IF r > HalfW THEN Err("mul.pn.ovf2")
               ELSE Ok(Wrap1(-r), TRUE, "mul.pn")

\* operator/
\* @type: ($num, $num) => $res;
Div(a0, b0) ==
    IF b0.u = 0 THEN Err("div.zero")
    ELSE LET na == Less(a0, Mk(0, TRUE))
             nb == Less(b0, Mk(0, TRUE))
             a == IF na THEN Num(Neg(a0)) ELSE a0
             b == IF nb THEN Num(Neg(b0)) ELSE b0
             neg == (na # nb)
         IN IF ~neg THEN Ok(a.u \div b.u, FALSE, "div.pos")
            ELSE \* v1 = v1 + (v2 - 1)
                 LET bm1 == Sub(b, Mk(1, TRUE)) IN
                 IF ~bm1.ok THEN Err("div.pre.sub")
                 ELSE LET pre == Add(a, Num(bm1)) IN
                      IF ~pre.ok THEN Err("div.pre.ovf")
                      ELSE LET q == Mk(pre.u \div b.u, FALSE)
                               n == Neg(q)
                           IN IF ~n.ok THEN Err("div.neg.ovf") ELSE [n EXCEPT !.br = "div.neg"]

\* operator%
\* @type: ($num, $num) => $res;
Mod(a0, b0) ==
    IF b0.u = 0 THEN Err("mod.zero")
    ELSE IF PinnedMod
    THEN \* v1 - v2 * (v1 / v2)
         LET d == Div(a0, b0) IN
         IF ~d.ok THEN Err("mod.div")
         ELSE LET p == Mul(b0, Num(d)) IN
              IF ~p.ok THEN Err("mod.mul")
              ELSE LET r == Sub(a0, Num(p)) IN IF ~r.ok THEN Err("mod.sub") ELSE r
    ELSE LET na == Less(a0, Mk(0, TRUE))
             nb == Less(b0, Mk(0, TRUE))
             a == IF na THEN Num(Neg(a0)) ELSE a0
             b == IF nb THEN Num(Neg(b0)) ELSE b0
             r0 == a.u % b.u
             r == IF r0 # 0 /\ na # nb THEN b.u - r0 ELSE r0
         IN IF nb THEN [Neg(Mk(r, FALSE)) EXCEPT !.br = "mod.negdiv"] ELSE Ok(r, FALSE, "mod.pos")

-----------------------------------------------------------------------------
(* MEANING *)

\* @type: (Int) => Bool;
InRange(v) == v >= MinS /\ v <= TwoW - 1

\* floor division and the matching remainder, for b # 0
\* @type: (Int, Int) => Int;
FDiv(a, b) == IF b > 0 THEN a \div b ELSE (-a) \div (-b)
\* @type: (Int, Int) => Int;
FMod(a, b) == a - b * FDiv(a, b)

\* @type: ($res, Int) => Bool;
Exactly(r, v) == r.ok /\ Val(Num(r)) = v

\* a result is canonical: negative values are signed
\* @type: ($res) => Bool;
WellTagged(r) == r.ok => (r.u < TwoW /\ r.u >= 0)

\* @type: ($num, $num) => Bool;
AddExact(a, b) == LET v == Val(a) + Val(b) r == Add(a, b) IN
                  IF InRange(v) THEN Exactly(r, v) ELSE ~r.ok
\* @type: ($num, $num) => Bool;
SubExact(a, b) == LET v == Val(a) - Val(b) r == Sub(a, b) IN
                  IF InRange(v) THEN Exactly(r, v) ELSE ~r.ok
\* @type: ($num, $num) => Bool;
MulExact(a, b) == LET v == Val(a) * Val(b) r == Mul(a, b) IN
                  IF InRange(v) THEN Exactly(r, v) ELSE ~r.ok
\* @type: ($num) => Bool;
NegExact(a) == LET v == -Val(a) r == Neg(a) IN
               IF InRange(v) THEN Exactly(r, v) ELSE ~r.ok
\* @type: ($num, $num) => Bool;
LessExact(a, b) == Less(a, b) = (Val(a) < Val(b))

\* The recorded finding (DESIGN.md 7, #3b): operator/ pre-adds |b|-1 to |a| and reports
\* an overflow for a negative quotient whenever that sum leaves the range, although the
\* floor quotient itself is representable.
\* @type: (Int) => Int;
AbsI(v) == IF v < 0 THEN -v ELSE v
\* @type: ($num, $num) => Bool;
DivKnownFamily(a, b) ==
    /\ Val(b) # 0
    /\ (Val(a) < 0) # (Val(b) < 0)
    /\ AbsI(Val(a)) + AbsI(Val(b)) - 1 > TwoW - 1
\* @type: ($num, $num) => Bool;
DivExact(a, b) ==
    LET r == Div(a, b) IN
    IF Val(b) = 0 THEN ~r.ok
    ELSE LET v == FDiv(Val(a), Val(b)) IN
         IF ~InRange(v) THEN ~r.ok
         ELSE Exactly(r, v) \/ (~r.ok /\ DivKnownFamily(a, b))
\* without the allowance: violated exactly on the known family
\* @type: ($num, $num) => Bool;
DivExactStrict(a, b) ==
    LET r == Div(a, b) IN
    IF Val(b) = 0 THEN ~r.ok
    ELSE LET v == FDiv(Val(a), Val(b)) IN IF InRange(v) THEN Exactly(r, v) ELSE ~r.ok
\* @type: ($num, $num) => Bool;
ModExact(a, b) ==
    LET r == Mod(a, b) IN
    IF Val(b) = 0 THEN ~r.ok
    ELSE LET v == FMod(Val(a), Val(b)) IN IF InRange(v) THEN Exactly(r, v) ELSE ~r.ok

=============================================================================
