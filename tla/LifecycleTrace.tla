-------------------------- MODULE LifecycleTrace --------------------------
(***************************************************************************)
(* Validation of a recorded scon event trace (ndjson written by the        *)
(* DWGREP_VERIF hooks) against Lifecycle.tla.  The trace is accepted iff   *)
(* every line can be consumed by the corresponding action of the spec.     *)
(***************************************************************************)
EXTENDS Naturals, Sequences, FiniteSets, TLC, Json, IOUtils

TraceLog == ndJsonDeserialize(IOEnv.LCTRACE)

VARIABLES live, l
tvars == <<live, l>>

Bufs == {TraceLog[i].sc : i \in 1..Len(TraceLog)}
Offs == {TraceLog[i].off : i \in 1..Len(TraceLog)}
Sizes == {TraceLog[i].sz : i \in 1..Len(TraceLog)}

L == INSTANCE Lifecycle WITH Bufs <- Bufs, Offs <- Offs, Sizes <- Sizes

TInit == L!LInit /\ l = 1

Ev == TraceLog[l]
IsEvent(e) == l <= Len(TraceLog) /\ Ev.e = e /\ l' = l + 1

TCon  == IsEvent("con") /\ L!Con(Ev.sc, Ev.off, Ev.sz)
TDes  == IsEvent("des") /\ L!Des(Ev.sc, Ev.off, Ev.sz)
TGet  == IsEvent("get") /\ L!Get(Ev.sc, Ev.off, Ev.sz)
TDtor == IsEvent("dtor") /\ L!Dtor(Ev.sc)
\* a new process: all buffers of the previous one are gone
TReset == IsEvent("reset") /\ live' = [b \in Bufs |-> {}]

TNext == TCon \/ TDes \/ TGet \/ TDtor \/ TReset
TSpec == TInit /\ [][TNext]_tvars

\* violated exactly when the whole trace has been consumed
NotAccepted == l <= Len(TraceLog)
NoOverlap == L!NoOverlap
=============================================================================
