------------------------------- MODULE Render -------------------------------
(***************************************************************************)
(* C20: renderings are unambiguous.                                        *)
(* (a) The CLI's quoted (brief) string rendering, dump_charp in dwgrep.cc, *)
(*     as a function Escape from byte strings to text, and the string      *)
(*     literal syntax of the lexer (lexer.ll) as Unescape; the property is *)
(*     Unescape(Escape(s)) = s.  Bytes are numbers 0..255, text is a       *)
(*     sequence of numbers as well.                                        *)
(* (b) Integer renderings: the shape (sign, prefix) that each domain       *)
(*     prints and the domain the literal syntax assigns to that shape.     *)
(* Fixed = FALSE gives the tables of the pinned commit.                    *)
(***************************************************************************)
EXTENDS Integers, Sequences, FiniteSets, TLC

CONSTANTS Fixed, Alphabet, MaxLen

BS == 92  QUOTE == 34  PCT == 37  LX == 120  ZERO == 48  SPACE == 32

HexDigit(d) == IF d < 10 THEN 48 + d ELSE 87 + d          \* 0-9 a-f
OctDigit(d) == 48 + d
IsPrint(b) == b >= 32 /\ b <= 126

Named == [b \in {7, 8, 9, 10, 11, 12, 13} |->
             CASE b = 7 -> 97 [] b = 8 -> 98 [] b = 9 -> 116 [] b = 10 -> 110
               [] b = 11 -> 118 [] b = 12 -> 102 [] b = 13 -> 114]

\* dump_charp, one byte
Esc1(b) ==
    IF b = 0 THEN (IF Fixed THEN <<BS, ZERO, ZERO, ZERO>> ELSE <<BS, ZERO>>)
    ELSE IF b = QUOTE THEN (IF Fixed THEN <<BS, QUOTE>> ELSE <<BS>>)
    ELSE IF b = BS THEN <<BS, BS>>
    ELSE IF b = PCT /\ Fixed THEN <<PCT, PCT>>
    ELSE IF b \in DOMAIN Named THEN <<BS, Named[b]>>
    ELSE IF IsPrint(b) THEN <<b>>
    ELSE LET hi == b \div 16 lo == b % 16 IN
         IF Fixed \/ hi # 0 THEN <<BS, LX, HexDigit(hi), HexDigit(lo)>>
         ELSE <<BS, LX, SPACE, HexDigit(lo)>>                 \* setw (2) pads with a space

RECURSIVE Escape(_)
Escape(s) == IF Len(s) = 0 THEN <<>> ELSE Esc1(Head(s)) \o Escape(Tail(s))

\* the lexer's STRING start condition on the text between the quotes; "ERR" when the text does
\* not lex as one string literal body (premature quote, bad escape, a format directive)
IsOct(c) == c >= 48 /\ c <= 55
IsHex(c) == (c >= 48 /\ c <= 57) \/ (c >= 97 /\ c <= 102) \/ (c >= 65 /\ c <= 70)
HexVal(c) == IF c <= 57 THEN c - 48 ELSE IF c >= 97 THEN c - 87 ELSE c - 55
UnNamed(c) == CASE c = 97 -> 7 [] c = 98 -> 8 [] c = 101 -> 27 [] c = 116 -> 9 [] c = 110 -> 10
                [] c = 118 -> 11 [] c = 102 -> 12 [] c = 114 -> 13 [] OTHER -> c

RECURSIVE Unescape(_)
Unescape(t) ==
    IF Len(t) = 0 THEN <<>>
    ELSE IF t[1] = QUOTE THEN <<-1>>                           \* the literal would end here
    ELSE IF t[1] = PCT THEN
         IF Len(t) >= 2 /\ t[2] = PCT THEN <<PCT>> \o Unescape(SubSeq(t, 3, Len(t)))
         ELSE <<-1>>                                           \* a formatting directive
    ELSE IF t[1] # BS THEN <<t[1]>> \o Unescape(Tail(t))
    ELSE IF Len(t) = 1 THEN <<-1>>
    ELSE IF t[2] >= 48 /\ t[2] <= 51 THEN
         \* \[0-3]{OCT}?{OCT}?  (longest match)
         LET n == IF Len(t) >= 3 /\ IsOct(t[3]) THEN (IF Len(t) >= 4 /\ IsOct(t[4]) THEN 3 ELSE 2) ELSE 1
             v == IF n = 1 THEN t[2] - 48
                  ELSE IF n = 2 THEN (t[2] - 48) * 8 + (t[3] - 48)
                  ELSE (t[2] - 48) * 64 + (t[3] - 48) * 8 + (t[4] - 48)
         IN <<v>> \o Unescape(SubSeq(t, 2 + n, Len(t)))
    ELSE IF t[2] = LX /\ Len(t) >= 4 /\ IsHex(t[3]) /\ IsHex(t[4])
         THEN <<HexVal(t[3]) * 16 + HexVal(t[4])>> \o Unescape(SubSeq(t, 5, Len(t)))
    ELSE <<UnNamed(t[2])>> \o Unescape(SubSeq(t, 3, Len(t)))

RECURSIVE StringsUpTo(_)
StringsUpTo(n) == IF n = 0 THEN {<<>>}
                  ELSE LET p == StringsUpTo(n - 1) IN
                       p \cup {Append(s, b) : s \in {x \in p : Len(x) = n - 1}, b \in Alphabet}

RoundTrip(s) == Unescape(Escape(s)) = s
AllRoundTrip == \A s \in StringsUpTo(MaxLen) : RoundTrip(s)
\* different strings never print alike
Injective == \A s, t \in StringsUpTo(MaxLen) : Escape(s) = Escape(t) => s = t

-----------------------------------------------------------------------------
(* integers: domain -> what is printed for sign sg in {"neg","zero","pos"} *)

Domains == {"dec", "hex", "oct", "bin"}
Prefix(d) == CASE d = "dec" -> "" [] d = "hex" -> "0x" [] d = "oct" -> "0" [] d = "bin" -> "0b"
\* iostream's showbase leaves zero without a prefix
Shape(d, sg) == [neg |-> sg = "neg", prefix |-> IF sg = "zero" THEN "" ELSE Prefix(d)]
\* parse_int: which domain a literal of that shape gets
Reads(sh) == CASE sh.prefix = "0x" -> "hex" [] sh.prefix = "0b" -> "bin" [] sh.prefix = "0" -> "oct" [] OTHER -> "dec"
IntRoundTrip(d, sg) == Reads(Shape(d, sg)) = d
\* recorded finding: zero in a non-decimal domain prints as a bare 0
IntShapesOK == \A d \in Domains, sg \in {"neg", "zero", "pos"} : IntRoundTrip(d, sg) \/ (sg = "zero" /\ d # "dec")
-----------------------------------------------------------------------------
(* (c) A sequence is rendered by value_seq::show into ONE stream: "[", the  *)
(* elements separated by ", ", "]".  The stream's formatting flags (base,   *)
(* showbase) are state that the element renderings share: the hex, oct and  *)
(* bin domains set them, the decimal domain prints with whatever is set.    *)
(* MEANING: an element is rendered as it is rendered alone.                 *)
(* MECHANISM: constant_dom::show per domain with its ios_flag_saver;        *)
(* NoSaver lists the domains whose show () lacks the saver (self-test).     *)

CONSTANT NoSaver
Flags0 == [base |-> 10, showbase |-> FALSE]
\* the text is abstracted to what determines it: the base it is written in and whether it has a prefix
ShowCst(el, fl) ==
    CASE el.dom = "dec" -> [txt |-> [v |-> el.v, base |-> fl.base, prefix |-> fl.showbase], fl |-> fl]
      [] el.dom = "bin" -> [txt |-> [v |-> el.v, base |-> 2, prefix |-> TRUE], fl |-> fl]     \* written digit by digit
      [] OTHER -> LET b == IF el.dom = "hex" THEN 16 ELSE 8 IN
                  [txt |-> [v |-> el.v, base |-> b, prefix |-> TRUE],
                   fl |-> IF el.dom \in NoSaver THEN [base |-> b, showbase |-> TRUE] ELSE fl]
RECURSIVE ShowSeqFrom(_, _)
ShowSeqFrom(els, fl) ==
    IF Len(els) = 0 THEN <<>>
    ELSE LET r == ShowCst(Head(els), fl) IN <<r.txt>> \o ShowSeqFrom(Tail(els), r.fl)
ShowAlone(el) == ShowCst(el, Flags0).txt
SeqEls == {[v |-> v, dom |-> d] : v \in {8, 16}, d \in {"dec", "hex", "oct", "bin"}}
SeqRenderingCompositional ==
    \A a, b, c \in SeqEls : ShowSeqFrom(<<a, b, c>>, Flags0) = <<ShowAlone(a), ShowAlone(b), ShowAlone(c)>>

=============================================================================
