------------------------------ MODULE CmpTrace ------------------------------
(* The comparison relation recorded from the implementation (all ordered   *)
(* pairs of the pool, words ?lt ?eq ?gt) must satisfy the order laws.      *)
(* Each line: [a: index, b: index, r: -1|0|1|2] (2: inconsistent answers). *)
EXTENDS Integers, Sequences, FiniteSets, TLC, Json, IOUtils

M == ndJsonDeserialize(IOEnv.CMPMATRIX)
N == CHOOSE n \in 1..Len(M) : n * n = Len(M)
R(a, b) == M[(a - 1) * N + b].r
Idx == 1..N

Total == \A a, b \in Idx : R(a, b) \in {-1, 0, 1}
Antisym == \A a, b \in Idx : R(a, b) = -R(b, a)
Refl == \A a \in Idx : R(a, a) = 0
TransLt == \A a, b, c \in Idx : (R(a, b) = -1 /\ R(b, c) = -1) => R(a, c) = -1
TransEq == \A a, b, c \in Idx : (R(a, b) = 0 /\ R(b, c) = 0) => R(a, c) = 0
Congruent == \A a, b, c \in Idx : R(a, b) = 0 => R(a, c) = R(b, c)

\* which law fails first (for the report)
Failing == IF ~Total THEN "Total" ELSE IF ~Antisym THEN "Antisym" ELSE IF ~Refl THEN "Refl"
           ELSE IF ~TransLt THEN "TransLt" ELSE IF ~TransEq THEN "TransEq" ELSE IF ~Congruent THEN "Congruent" ELSE "none"
BadTriple == IF Failing \in {"TransLt", "TransEq", "Congruent"}
             THEN CHOOSE t \in Idx \X Idx \X Idx :
                     \/ (R(t[1], t[2]) = -1 /\ R(t[2], t[3]) = -1 /\ R(t[1], t[3]) # -1)
                     \/ (R(t[1], t[2]) = 0 /\ R(t[2], t[3]) = 0 /\ R(t[1], t[3]) # 0)
                     \/ (R(t[1], t[2]) = 0 /\ R(t[1], t[3]) # R(t[2], t[3]))
             ELSE <<0, 0, 0>>
ASSUME PrintT(<<"CMPLAWS", Failing, BadTriple>>)
\* every law on its own (one broken law must not hide another)
ASSUME PrintT(<<"CMPALL", [Total |-> Total, Antisym |-> Antisym, Refl |-> Refl, TransLt |-> TransLt, TransEq |-> TransEq,
                            Congruent |-> Total => Congruent]>>)
=============================================================================
