------------------------------ MODULE Grammar ------------------------------
(***************************************************************************)
(* The surface grammar of Zwerg (parser.yy) over token classes, as a       *)
(* recogniser: Accepts(toks) is TRUE iff the bison grammar derives the     *)
(* token string.  Token classes (strings):                                 *)
(*   "(" ")" "?(" "!(" "[" "]" "{" "}" "?{" "!{" "*" "+" "?" "," "||" "|"  *)
(*   ":" ";" ":=" "if" "then" "else" "let" "W" (word) "NW" (?N / !N)       *)
(*   "N" (integer literal) "OP" (infix operator) "S" (string literal)      *)
(* Lexical errors are separate token classes that make the lexer throw:    *)
(*   "US" (unterminated string) "BAD" (invalid character)                  *)
(*   "BN" (malformed integer literal such as 0x or 08 or 1z)               *)
(* D(nt, i, j): nonterminal nt derives toks[i..j-1].                       *)
(***************************************************************************)
EXTENDS Naturals, Sequences, FiniteSets, TLC

RECURSIVE D(_, _, _, _)

Tok(t, i) == t[i]

\* exists a split point k in i..j
Split2(t, a, b, i, j) == \E k \in i..j : D(t, a, i, k) /\ D(t, b, k, j)

D(t, nt, i, j) ==
    CASE nt = "Program" -> D(t, "AltList", i, j)
      [] nt = "AltList" ->
            \/ D(t, "OrList", i, j)
            \/ \E k \in i..(j - 1) : Tok(t, k) = "," /\ D(t, "OrList", i, k) /\ D(t, "AltList", k + 1, j)
      [] nt = "OrList" ->
            \/ D(t, "OpList", i, j)
            \/ \E k \in i..(j - 1) : Tok(t, k) = "||" /\ D(t, "OpList", i, k) /\ D(t, "OrList", k + 1, j)
      [] nt = "OpList" ->
            \/ D(t, "StatementList", i, j)
            \/ \E k \in i..(j - 1) : Tok(t, k) = "OP" /\ D(t, "StatementList", i, k)
                                     /\ D(t, "StatementList", k + 1, j)
      [] nt = "StatementList" ->
            \/ i = j
            \/ \E k \in (i + 1)..j : D(t, "Statement", i, k) /\ D(t, "StatementList", k, j)
      [] nt = "IdList" ->          \* one or more words
            i < j /\ \A k \in i..(j - 1) : Tok(t, k) = "W"
      [] nt = "IdBlockProgram" ->  \* IdBlockOpt Program
            \/ D(t, "Program", i, j)
            \/ /\ i < j /\ Tok(t, i) = "|"
               /\ \E k \in (i + 2)..(j - 1) : Tok(t, k) = "|" /\ D(t, "IdList", i + 1, k)
                                              /\ D(t, "Program", k + 1, j)
      [] nt = "Word" -> j = i + 1 /\ Tok(t, i) \in {"W", "NW"}
      [] nt = "Statement" ->
            /\ i < j
            /\ \/ \* bracketed forms
                  /\ j - i >= 2
                  /\ \/ Tok(t, i) \in {"(", "?(", "!("} /\ Tok(t, j - 1) = ")"
                     \/ Tok(t, i) = "[" /\ Tok(t, j - 1) = "]"
                     \/ Tok(t, i) \in {"{", "?{", "!{"} /\ Tok(t, j - 1) = "}"
                  /\ D(t, "IdBlockProgram", i + 1, j - 1)
               \/ \* let IdList := Program ;   |   let STR := Program ;
                  /\ Tok(t, i) = "let" /\ Tok(t, j - 1) = ";"
                  /\ \E k \in (i + 2)..(j - 2) :
                        /\ Tok(t, k) = ":="
                        /\ (D(t, "IdList", i + 1, k) \/ (k = i + 2 /\ Tok(t, i + 1) = "S"))
                        /\ D(t, "Program", k + 1, j - 1)
               \/ \* postfix operators
                  Tok(t, j - 1) \in {"*", "+", "?"} /\ D(t, "Statement", i, j - 1)
               \/ \* if S then S else S
                  /\ Tok(t, i) = "if"
                  /\ \E k1 \in (i + 2)..(j - 4) : \E k2 \in (k1 + 2)..(j - 2) :
                        /\ Tok(t, k1) = "then" /\ Tok(t, k2) = "else"
                        /\ D(t, "Statement", i + 1, k1) /\ D(t, "Statement", k1 + 1, k2)
                        /\ D(t, "Statement", k2 + 1, j)
               \/ j = i + 1 /\ Tok(t, i) \in {"N", "S"}
               \/ D(t, "Word", i, j)
               \/ \* Word : Statement
                  j - i >= 3 /\ Tok(t, i) \in {"W", "NW"} /\ Tok(t, i + 1) = ":" /\ D(t, "Statement", i + 2, j)

LexError(t) == \E i \in 1..Len(t) : t[i] \in {"US", "BAD", "BN"}

\* A `let` with a string needs a simple string; the spelling used for "S" is simple.
Accepts(t) == ~LexError(t) /\ D(t, "Program", 1, Len(t) + 1)

\* the verdict the API must give: "ok" or "err"
Verdict(t) == IF Accepts(t) THEN "ok" ELSE "err"
=============================================================================
