------------------------------ MODULE CacheGen ------------------------------
(* Histories of cache questions for replay on the real library: every       *)
(* sequence of questions up to the bound, with the answers the meaning      *)
(* layer of tla/Cache.tla gives.                                            *)
EXTENDS Naturals, Sequences, FiniteSets, TLC, Json, SequencesExt

CONSTANTS NUnits, ShapeId, MaxLen, OutFile, Shard, NShards

\* Shape[d] = parent of DIE d (0 for the root, DIE 1)
Shapes == << <<0, 1, 2, 1>>, <<0, 1, 1>>, <<0, 1, 2, 3>>, <<0>> >>
Shape == Shapes[ShapeId]
Dies == 1..Len(Shape)
Qs == {<<o, u, d>> : o \in {"root", "parent"}, u \in 1..NUnits, d \in Dies}
Ans(qn) == IF qn[1] = "root" THEN (IF qn[3] = 1 THEN 1 ELSE 0) ELSE Shape[qn[3]]
Hists == UNION {[1..k -> Qs] : k \in 2..MaxLen}
ToJ(h) == [j \in 1..Len(h) |-> [op |-> h[j][1], u |-> h[j][2], d |-> h[j][3], a |-> Ans(h[j])]]
Mine == LET sq == SetToSeq(Hists) IN SelectSeq([j \in 1..Len(sq) |-> [j |-> j, h |-> sq[j]]], LAMBDA r: r.j % NShards = Shard)
ASSUME PrintT(<<"NHIST", Cardinality(Hists)>>)
ASSUME ndJsonSerialize(OutFile, [j \in 1..Len(Mine) |-> ToJ(Mine[j].h)])
=============================================================================
