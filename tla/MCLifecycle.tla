---------------------------- MODULE MCLifecycle ----------------------------
(* Lifecycle.tla instantiated with a tiny universe for exhaustive checking. *)
EXTENDS Naturals, FiniteSets
VARIABLE live
L == INSTANCE Lifecycle WITH Bufs <- {"a", "b"}, Offs <- {0, 8, 16}, Sizes <- {8, 16}
LSpec == L!LSpec
NoOverlap == L!NoOverlap
=============================================================================
