-------------------------------- MODULE Cli --------------------------------
(***************************************************************************)
(* The command line contract of dwgrep (doc/cli.rst, options.cc docstrings, *)
(* property C19) as a function from an abstract invocation to what must be *)
(* observed: exit status, the lines on stdout, and whether stderr carries  *)
(* a diagnostic.  The library is abstracted to the result class of the     *)
(* query: "cerr" (does not compile), "r0"/"r1"/"r3" (0, 1, 3 results per   *)
(* execution: r1 yields its input stack, r3 pushes 10, 20, 30), "err0" /   *)
(* "err1" (an error is raised after 0 / 1 results).                        *)
(*                                                                         *)
(* cfg: [flags: SUBSET {"q","s","c","H","h"}, qc: class,                   *)
(*       files: Seq({"F1","F2","BAD","NONELF"}),                           *)
(*       args: Seq([lit: BOOLEAN, vals: Seq(STRING)])]                     *)
(***************************************************************************)
EXTENDS Naturals, Sequences, FiniteSets, TLC

Valid(f) == f \in {"F1", "F2"}
ValidFiles(cfg) == SelectSeq(cfg.files, Valid)

\* the dimensions of the iteration space: valid files first (if files were given), then the arguments
Dims(cfg) ==
    (IF Len(cfg.files) > 0 THEN <<[j \in 1..Len(ValidFiles(cfg)) |-> [dw |-> ValidFiles(cfg)[j]]]>> ELSE <<>>)
    \o [i \in 1..Len(cfg.args) |-> [j \in 1..Len(cfg.args[i].vals) |-> [str |-> cfg.args[i].vals[j]]]]

RECURSIVE Product(_)
\* row-major: the first dimension varies slowest
Product(dims) ==
    IF Len(dims) = 0 THEN <<<<>>>>
    ELSE LET rest == Product(Tail(dims))
             RECURSIVE Rows(_)
             Rows(j) == IF j > Len(Head(dims)) THEN <<>>
                        ELSE [k \in 1..Len(rest) |-> <<Head(dims)[j]>> \o rest[k]] \o Rows(j + 1)
         IN Rows(1)

Iterations(cfg) == Product(Dims(cfg))

\* rendering of a value in full form (one line) and in the header
Full(v) == IF "dw" \in DOMAIN v THEN "<Dwarf \"@" \o v.dw \o "@\">" ELSE v.str
Hdr(v) == IF "dw" \in DOMAIN v THEN "@" \o v.dw \o "@" ELSE "\"" \o v.str \o "\""

RECURSIVE JoinC(_)
JoinC(s) == IF Len(s) = 0 THEN "" ELSE IF Len(s) = 1 THEN s[1] ELSE s[1] \o "," \o JoinC(Tail(s))

Header(cfg, row) ==
    LET dims == Dims(cfg)
        shown == SelectSeq([i \in 1..Len(row) |-> [i |-> i, v |-> row[i]]],
                           LAMBDA x: (x.i = 1 /\ Len(cfg.files) > 0) \/ Len(dims[x.i]) > 1)
    IN IF Len(shown) = 0 THEN "<no-file>" ELSE JoinC([i \in 1..Len(shown) |-> Hdr(shown[i].v)])

WithHeader(cfg) == (Len(Iterations(cfg)) > 1 \/ "H" \in cfg.flags) /\ "h" \notin cfg.flags

Rev(s) == [i \in 1..Len(s) |-> s[Len(s) + 1 - i]]

\* the stacks one execution yields before it ends or fails (top of stack last)
Yields(cfg, row) ==
    CASE cfg.qc = "r0" -> <<>>
      [] cfg.qc = "r1" -> <<row>>
      [] cfg.qc = "r3" -> <<Append(row, [str |-> "10"]), Append(row, [str |-> "20"]), Append(row, [str |-> "30"])>>
      [] cfg.qc = "err0" -> <<>>
      [] cfg.qc = "err1" -> <<Append(row, [str |-> "7"])>>
Fails(cfg) == cfg.qc \in {"err0", "err1"}

\* one record of output per yielded stack
Record(cfg, row, stk) ==
    (IF WithHeader(cfg) THEN <<Header(cfg, row) \o ":">> ELSE <<>>)
    \o (IF Len(stk) > 1 THEN <<"---">> ELSE <<>>)
    \o [i \in 1..Len(stk) |-> Full(Rev(stk)[i])]

RECURSIVE Flat(_)
Flat(ss) == IF Len(ss) = 0 THEN <<>> ELSE Head(ss) \o Flat(Tail(ss))

NatStr(n) == ToString(n)

\* what one iteration writes to stdout
IterOut(cfg, row) ==
    IF "q" \in cfg.flags THEN <<>>
    ELSE IF "c" \in cfg.flags
    THEN <<(IF WithHeader(cfg) THEN Header(cfg, row) \o ":" ELSE "") \o NatStr(Len(Yields(cfg, row)))>>
    ELSE Flat([j \in 1..Len(Yields(cfg, row)) |-> Record(cfg, row, Yields(cfg, row)[j])])

AnyResult(cfg) == \E j \in 1..Len(Iterations(cfg)) : Len(Yields(cfg, Iterations(cfg)[j])) > 0

NoInput(cfg) == Len(cfg.files) > 0 /\ Len(ValidFiles(cfg)) = 0

Expected(cfg) ==
    IF cfg.qc = "cerr" THEN [status |-> 2, out |-> <<>>, err |-> "some"]
    ELSE IF NoInput(cfg)
    THEN [status |-> 1, out |-> <<>>, err |-> IF "s" \in cfg.flags THEN "none" ELSE "some"]
    ELSE LET its == Iterations(cfg)
             q == "q" \in cfg.flags
             \* with -q the run stops at the first result
             outs == IF q THEN <<>> ELSE Flat([j \in 1..Len(its) |-> IterOut(cfg, its[j])])
             failed == Fails(cfg) /\ Len(its) > 0 /\ ~(q /\ AnyResult(cfg))
             badfile == \E i \in 1..Len(cfg.files) : ~Valid(cfg.files[i])
         IN [status |-> IF q THEN (IF AnyResult(cfg) THEN 0 ELSE 1)
                        ELSE IF failed THEN 2 ELSE IF AnyResult(cfg) THEN 0 ELSE 1,
             out |-> outs,
             err |-> IF "s" \in cfg.flags THEN "none"
                     ELSE IF failed \/ badfile THEN "some"
                     ELSE IF q /\ Fails(cfg) THEN "any" ELSE "none"]

-----------------------------------------------------------------------------
(* the configuration space *)

FlagSets == SUBSET {"q", "s", "c", "H", "h"}
Classes == {"cerr", "r0", "r1", "r3", "err0", "err1"}
FileLists == {<<>>, <<"F1">>, <<"F1", "F2">>, <<"BAD", "F1">>, <<"BAD">>, <<"NONELF", "F2">>, <<"F2", "F1", "BAD">>}
ArgLists == {<<>>,
             <<[lit |-> TRUE, vals |-> <<"x">>]>>,
             <<[lit |-> FALSE, vals |-> <<"a", "b">>]>>,
             <<[lit |-> FALSE, vals |-> <<>>]>>,
             <<[lit |-> TRUE, vals |-> <<"x">>], [lit |-> FALSE, vals |-> <<"a", "b", "c">>]>>,
             <<[lit |-> FALSE, vals |-> <<"a", "b">>], [lit |-> FALSE, vals |-> <<"p", "q">>]>>}
Configs == [flags: FlagSets, qc: Classes, files: FileLists, args: ArgLists]

\* sanity properties of the contract itself
QuietIsSilent == \A c \in Configs : "q" \in c.flags => Expected(c).out = <<>>
CountLines == \A c \in Configs : ("c" \in c.flags /\ "q" \notin c.flags /\ c.qc # "cerr" /\ ~NoInput(c))
                 => Len(Expected(c).out) = Len(Iterations(c))
StatusTable == \A c \in Configs : Expected(c).status \in {0, 1, 2}
=============================================================================
