-------------------------------- MODULE Cli --------------------------------
(***************************************************************************)
(* The command line contract of dwgrep (doc/cli.rst, options.cc docstrings, *)
(* property C19) as a function from an abstract invocation to what must be *)
(* observed: exit status, the lines on stdout, and whether stderr carries  *)
(* a diagnostic.  The library is abstracted to the result class of the     *)
(* query: "cerr" (does not compile), "r0"/"r1"/"r3" (0, 1, 3 results per   *)
(* execution: r1 yields its input stack, r3 pushes 10, 20, 30), "err0" /   *)
(* "err1" (an error is raised after 0 / 1 results).                        *)
(*                                                                         *)
(* cfg: [flags: SUBSET {"q","s","c","H","h"}, qc: class,                   *)
(*       files: Seq({"F1","F2","BAD","NONELF"}),                           *)
(*       args: Seq([lit: BOOLEAN, vals: Seq(STRING)])]                     *)
(***************************************************************************)
EXTENDS Integers, Sequences, FiniteSets, TLC

Valid(f) == f \in {"F1", "F2"}
ValidFiles(cfg) == SelectSeq(cfg.files, Valid)

\* the dimensions of the iteration space: valid files first (if files were given), then the arguments
Dims(cfg) ==
    (IF Len(cfg.files) > 0 THEN <<[j \in 1..Len(ValidFiles(cfg)) |-> [dw |-> ValidFiles(cfg)[j]]]>> ELSE <<>>)
    \o [i \in 1..Len(cfg.args) |-> [j \in 1..Len(cfg.args[i].vals) |-> [str |-> cfg.args[i].vals[j]]]]

RECURSIVE Product(_)
\* row-major: the first dimension varies slowest
Product(dims) ==
    IF Len(dims) = 0 THEN <<<<>>>>
    ELSE LET rest == Product(Tail(dims))
             RECURSIVE Rows(_)
             Rows(j) == IF j > Len(Head(dims)) THEN <<>>
                        ELSE [k \in 1..Len(rest) |-> <<Head(dims)[j]>> \o rest[k]] \o Rows(j + 1)
         IN Rows(1)

Iterations(cfg) == Product(Dims(cfg))

\* rendering of a value in full form (one line) and in the header
Full(v) == IF "dw" \in DOMAIN v THEN "<Dwarf \"@" \o v.dw \o "@\">" ELSE v.str
Hdr(v) == IF "dw" \in DOMAIN v THEN "@" \o v.dw \o "@" ELSE "\"" \o v.str \o "\""

RECURSIVE JoinC(_)
JoinC(s) == IF Len(s) = 0 THEN "" ELSE IF Len(s) = 1 THEN s[1] ELSE s[1] \o "," \o JoinC(Tail(s))

Header(cfg, row) ==
    LET dims == Dims(cfg)
        shown == SelectSeq([i \in 1..Len(row) |-> [i |-> i, v |-> row[i]]],
                           LAMBDA x: (x.i = 1 /\ Len(cfg.files) > 0) \/ Len(dims[x.i]) > 1)
    IN IF Len(shown) = 0 THEN "<no-file>" ELSE JoinC([i \in 1..Len(shown) |-> Hdr(shown[i].v)])

WithHeader(cfg) == (Len(Iterations(cfg)) > 1 \/ "H" \in cfg.flags) /\ "h" \notin cfg.flags

Rev(s) == [i \in 1..Len(s) |-> s[Len(s) + 1 - i]]

\* the stacks one execution yields before it ends or fails (top of stack last)
Yields(cfg, row) ==
    CASE cfg.qc = "r0" -> <<>>
      [] cfg.qc = "r1" -> <<row>>
      [] cfg.qc = "r3" -> <<Append(row, [str |-> "10"]), Append(row, [str |-> "20"]), Append(row, [str |-> "30"])>>
      [] cfg.qc = "err0" -> <<>>
      [] cfg.qc = "err1" -> <<Append(row, [str |-> "7"])>>
Fails(cfg) == cfg.qc \in {"err0", "err1"}

\* one record of output per yielded stack
Record(cfg, row, stk) ==
    (IF WithHeader(cfg) THEN <<Header(cfg, row) \o ":">> ELSE <<>>)
    \o (IF Len(stk) > 1 THEN <<"---">> ELSE <<>>)
    \o [i \in 1..Len(stk) |-> Full(Rev(stk)[i])]

RECURSIVE Flat(_)
Flat(ss) == IF Len(ss) = 0 THEN <<>> ELSE Head(ss) \o Flat(Tail(ss))

NatStr(n) == ToString(n)

\* what one iteration writes to stdout
IterOut(cfg, row) ==
    IF "q" \in cfg.flags THEN <<>>
    ELSE IF "c" \in cfg.flags
    THEN <<(IF WithHeader(cfg) THEN Header(cfg, row) \o ":" ELSE "") \o NatStr(Len(Yields(cfg, row)))>>
    ELSE Flat([j \in 1..Len(Yields(cfg, row)) |-> Record(cfg, row, Yields(cfg, row)[j])])

AnyResult(cfg) == \E j \in 1..Len(Iterations(cfg)) : Len(Yields(cfg, Iterations(cfg)[j])) > 0

NoInput(cfg) == Len(cfg.files) > 0 /\ Len(ValidFiles(cfg)) = 0

Expected(cfg) ==
    IF cfg.qc = "cerr" THEN [status |-> 2, out |-> <<>>, err |-> "some"]
    ELSE IF NoInput(cfg)
    THEN [status |-> 1, out |-> <<>>, err |-> IF "s" \in cfg.flags THEN "none" ELSE "some"]
    ELSE LET its == Iterations(cfg)
             q == "q" \in cfg.flags
             \* with -q the run stops at the first result
             outs == IF q THEN <<>> ELSE Flat([j \in 1..Len(its) |-> IterOut(cfg, its[j])])
             failed == Fails(cfg) /\ Len(its) > 0 /\ ~(q /\ AnyResult(cfg))
             badfile == \E i \in 1..Len(cfg.files) : ~Valid(cfg.files[i])
         IN [status |-> IF q THEN (IF AnyResult(cfg) THEN 0 ELSE 1)
                        ELSE IF failed THEN 2 ELSE IF AnyResult(cfg) THEN 0 ELSE 1,
             out |-> outs,
             err |-> IF "s" \in cfg.flags THEN "none"
                     ELSE IF failed \/ badfile THEN "some"
                     ELSE IF q /\ Fails(cfg) THEN "any" ELSE "none"]


-----------------------------------------------------------------------------
(* MECHANISM: main () of dwgrep.cc, statement by statement.  The library is    *)
(* the same abstraction (Yields / Fails).  PinnedCount / PinnedZeroArg give     *)
(* the pinned commit's behaviour for the defects repaired since (DESIGN.md 7).  *)

CONSTANTS PinnedCount, PinnedZeroArg

\* the odometer over `args' (files first): indexes into each dimension
RECURSIVE Bump(_, _, _)
\* returns [its: new indexes, next: BOOLEAN]; the LAST argument varies fastest
Bump(dims, its, i) ==
    IF i = 0 THEN [its |-> its, next |-> FALSE]
    ELSE IF its[i] + 1 > Len(dims[i]) THEN Bump(dims, [its EXCEPT ![i] = 1], i - 1)
    ELSE [its |-> [its EXCEPT ![i] = @ + 1], next |-> TRUE]

RECURSIVE MainLoop(_, _, _, _)
\* st: [out, err, errors, match, done (early exit status or -1)]
MainLoop(cfg, dims, its, st) ==
    LET q == "q" \in cfg.flags
        row == [i \in 1..Len(dims) |-> dims[i][its[i]]]
        ys == Yields(cfg, row)
        hdr == Header(cfg, row)
        withh == WithHeader(cfg)
        \* the while (auto out = zw_result_next) loop
        printed == IF "c" \in cfg.flags THEN <<>>
                   ELSE Flat([j \in 1..Len(ys) |-> Record(cfg, row, ys[j])])
        countline == <<(IF withh THEN hdr \o ":" ELSE "") \o NatStr(Len(ys))>>
        st1 == IF q /\ Len(ys) > 0
               THEN [st EXCEPT !.done = 0]                                   \* grep: exit at once on the first match
               ELSE LET out1 == st.out \o printed
                        out2 == IF "c" \in cfg.flags /\ (PinnedCount \/ ~q)
                                THEN (IF Fails(cfg) /\ PinnedCount THEN out1 ELSE out1 \o countline)
                                ELSE out1
                    IN [st EXCEPT !.out = out2,
                                  !.match = st.match \/ Len(ys) > 0,
                                  !.err = st.err \/ (Fails(cfg) /\ "s" \notin cfg.flags),
                                  !.errors = st.errors \/ (Fails(cfg) /\ ~q)]
        b == Bump(dims, its, Len(dims))
    IN IF st1.done # -1 \/ ~b.next THEN st1 ELSE MainLoop(cfg, dims, b.its, st1)

Main(cfg) ==
    IF cfg.qc = "cerr" THEN [status |-> 2, out |-> <<>>, err |-> "some"]
    ELSE LET badfile == \E i \in 1..Len(cfg.files) : ~Valid(cfg.files[i])
             openerr == badfile /\ "s" \notin cfg.flags
         IN IF Len(cfg.files) > 0 /\ Len(ValidFiles(cfg)) = 0
            THEN [status |-> 1, out |-> <<>>, err |-> IF openerr THEN "some" ELSE "none"]     \* done before we started
            ELSE LET dims == Dims(cfg)
                     iterations == IF Len(dims) = 0 THEN 1
                                   ELSE LET RECURSIVE Prod(_)
                                            Prod(i) == IF i > Len(dims) THEN 1 ELSE Len(dims[i]) * Prod(i + 1)
                                        IN Prod(1)
                 IN IF iterations = 0
                    THEN (IF PinnedZeroArg THEN [status |-> 139, out |-> <<>>, err |-> "none"]     \* dereferences end ()
                          ELSE [status |-> 1, out |-> <<>>, err |-> IF openerr THEN "some" ELSE "none"])
                    ELSE LET st == MainLoop(cfg, dims, [i \in 1..Len(dims) |-> 1],
                                            [out |-> <<>>, err |-> openerr, errors |-> FALSE, match |-> FALSE, done |-> -1])
                         IN [status |-> IF st.done # -1 THEN st.done ELSE IF st.errors THEN 2 ELSE IF st.match THEN 0 ELSE 1,
                             out |-> st.out,
                             err |-> IF st.err THEN "some" ELSE "none"]

-----------------------------------------------------------------------------
(* the configuration space *)

FlagSets == SUBSET {"q", "s", "c", "H", "h"}
Classes == {"cerr", "r0", "r1", "r3", "err0", "err1"}
FileLists == {<<>>, <<"F1">>, <<"F1", "F2">>, <<"BAD", "F1">>, <<"BAD">>, <<"NONELF", "F2">>, <<"F2", "F1", "BAD">>}
ArgLists == {<<>>,
             <<[lit |-> TRUE, vals |-> <<"x">>]>>,
             <<[lit |-> FALSE, vals |-> <<"a", "b">>]>>,
             <<[lit |-> FALSE, vals |-> <<>>]>>,
             <<[lit |-> TRUE, vals |-> <<"x">>], [lit |-> FALSE, vals |-> <<"a", "b", "c">>]>>,
             <<[lit |-> FALSE, vals |-> <<"a", "b">>], [lit |-> FALSE, vals |-> <<"p", "q">>]>>}
Configs == [flags: FlagSets, qc: Classes, files: FileLists, args: ArgLists]

\* sanity properties of the contract itself
QuietIsSilent == \A c \in Configs : "q" \in c.flags => Expected(c).out = <<>>
CountLines == \A c \in Configs : ("c" \in c.flags /\ "q" \notin c.flags /\ c.qc # "cerr" /\ ~NoInput(c))
                 => Len(Expected(c).out) = Len(Iterations(c))
StatusTable == \A c \in Configs : Expected(c).status \in {0, 1, 2}
\* the transcription of main () honours the contract
ErrCompatible(m, e) == e = "any" \/ m = e
MainRefinesContract ==
    \A c \in Configs : LET m == Main(c) e == Expected(c) IN
        m.status = e.status /\ m.out = e.out /\ ErrCompatible(m.err, e.err)

=============================================================================
