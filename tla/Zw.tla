------------------------------- MODULE Zw -------------------------------
(***************************************************************************)
(* The Zwerg language as documented (doc/syntax.rst, the docstrings of the *)
(* core vocabulary): values, core words, abstract syntax, static           *)
(* well-formedness and the denotation Den (the MEANING layer of            *)
(* DESIGN.md 2.1).  Nothing in this module knows about the pull engine.    *)
(*                                                                         *)
(* Values are records whose field sets differ per type so that TLC can     *)
(* compare any two of them:                                                *)
(*   integer   [t |-> "i", i |-> n, d |-> domain, pos |-> p]               *)
(*   string    [t |-> "s", s |-> <<"t","e","x","t">>, pos |-> p]  (chars)    *)
(*   sequence  [t |-> "q", q |-> <<values>>, pos |-> p]                    *)
(*   closure   [t |-> "c", b |-> body AST, e |-> environment, pos |-> p]   *)
(* A stack is a sequence of values, top of stack LAST.                     *)
(* An environment is a function from names (strings) to values.            *)
(***************************************************************************)
EXTENDS Integers, Sequences, FiniteSets, TLC

-----------------------------------------------------------------------------
(* generic helpers *)

RECURSIVE FlatMapAux(_, _, _)
FlatMapAux(F(_), s, i) ==
    IF i > Len(s) THEN <<>> ELSE F(s[i]) \o FlatMapAux(F, s, i + 1)
FlatMap(F(_), s) == FlatMapAux(F, s, 1)

RECURSIVE SumAux(_, _, _)
SumAux(F(_), s, i) == IF i > Len(s) THEN 0 ELSE F(s[i]) + SumAux(F, s, i + 1)
SumSeq(F(_), s) == SumAux(F, s, 1)

MapSeq(F(_), s) == [i \in 1..Len(s) |-> F(s[i])]
Rev(s) == [i \in 1..Len(s) |-> s[Len(s) + 1 - i]]
SelectSeq2(s, T(_)) == SelectSeq(s, T)
Last(s) == s[Len(s)]
Front(s) == SubSeq(s, 1, Len(s) - 1)
Max(a, b) == IF a > b THEN a ELSE b
Min(a, b) == IF a < b THEN a ELSE b

-----------------------------------------------------------------------------
(* values *)

IntV(n)      == [t |-> "i", i |-> n, d |-> "dec", pos |-> 0]
IntD(n, d)   == [t |-> "i", i |-> n, d |-> d, pos |-> 0]
StrV(s)      == [t |-> "s", s |-> s, pos |-> 0]
SeqV(q)      == [t |-> "q", q |-> q, pos |-> 0]
CloV(b, e)   == [t |-> "c", b |-> b, e |-> e, pos |-> 0]
WithPos(v, p) == [v EXCEPT !.pos = p]

\* The type constants as `type value` reports them.
TypeCode(v) == CASE v.t = "c" -> 1 [] v.t = "i" -> 2 [] v.t = "q" -> 3 [] v.t = "s" -> 4

\* Equality of Zwerg values ignores positions (and, for integers in
\* arithmetic domains, the domain).  Strip removes what `==` ignores.
RECURSIVE Strip(_)
Strip(v) ==
    CASE v.t = "i" -> [t |-> "i", i |-> v.i]
      [] v.t = "s" -> [t |-> "s", s |-> v.s]
      [] v.t = "q" -> [t |-> "q", q |-> [j \in 1..Len(v.q) |-> Strip(v.q[j])]]
      [] v.t = "c" -> [t |-> "c", b |-> v.b, e |-> v.e]
StripStk(stk) == [j \in 1..Len(stk) |-> Strip(stk[j])]

\* Rendering of a value by %s / value::show, as a sequence of characters.
DigitCh(d) == CASE d = 0 -> "0" [] d = 1 -> "1" [] d = 2 -> "2" [] d = 3 -> "3" [] d = 4 -> "4"
                [] d = 5 -> "5" [] d = 6 -> "6" [] d = 7 -> "7" [] d = 8 -> "8" [] d = 9 -> "9"
RECURSIVE Digits(_)
Digits(n) == IF n < 10 THEN <<DigitCh(n)>> ELSE Digits(n \div 10) \o <<DigitCh(n % 10)>>
RECURSIVE Show(_)
RECURSIVE ShowElems(_, _)
ShowElems(q, j) ==
    IF j > Len(q) THEN <<>>
    ELSE (IF j > 1 THEN <<",", " ">> ELSE <<>>) \o Show(q[j]) \o ShowElems(q, j + 1)
Show(v) ==
    CASE v.t = "i" -> (IF v.i < 0 THEN <<"-">> \o Digits(-v.i) ELSE Digits(v.i))
      [] v.t = "s" -> v.s
      [] v.t = "q" -> <<"[">> \o ShowElems(v.q, 1) \o <<"]">>
      [] v.t = "c" -> <<"?">>

\* Three-way comparison of two values of the same type: -1, 0, 1.
\* (Strings never need ordering in this fragment: only equality.)
\* the characters that occur in modelled strings, in ASCII order ("NUL" is the byte 0: one element, written \x00)
Ascii == <<"NUL", " ", "!", "(", ")", ",", "-", "0", "1", "2", "3", "4", "5", "6", "7", "8", "9", "<", ">", "?",
           "[", "]", "a", "b", "c", "d", "e", "f", "g", "h", "i", "j", "k", "l", "m", "n", "o", "p", "q",
           "r", "s", "t", "u", "v", "w", "x", "y", "z">>
CharCode(c) == CHOOSE i \in 1..Len(Ascii) : Ascii[i] = c
RECURSIVE LexChars(_, _, _)
LexChars(a, b, i) ==
    IF i > Len(a) /\ i > Len(b) THEN 0
    ELSE IF i > Len(a) THEN -1 ELSE IF i > Len(b) THEN 1
    ELSE IF a[i] # b[i] THEN (IF CharCode(a[i]) < CharCode(b[i]) THEN -1 ELSE 1)
    ELSE LexChars(a, b, i + 1)

RECURSIVE CmpV(_, _)
RECURSIVE CmpElems(_, _, _)
CmpElems(a, b, j) ==
    IF j > Len(a) THEN 0
    ELSE LET c == CmpV(a[j], b[j]) IN IF c # 0 THEN c ELSE CmpElems(a, b, j + 1)
RECURSIVE CmpTypes(_, _, _)
CmpTypes(a, b, j) ==
    IF j > Len(a) THEN 0
    ELSE IF TypeCode(a[j]) < TypeCode(b[j]) THEN -1
    ELSE IF TypeCode(a[j]) > TypeCode(b[j]) THEN 1
    ELSE CmpTypes(a, b, j + 1)
CmpV(a, b) ==
    CASE a.t = "i" -> (IF a.i < b.i THEN -1 ELSE IF a.i > b.i THEN 1 ELSE 0)
      [] a.t = "s" -> LexChars(a.s, b.s, 1)          \* bytewise
      [] a.t = "q" -> (IF Len(a.q) < Len(b.q) THEN -1
                       ELSE IF Len(a.q) > Len(b.q) THEN 1
                       ELSE LET ty == CmpTypes(a.q, b.q, 1) IN
                            IF ty # 0 THEN ty ELSE CmpElems(a.q, b.q, 1))
      [] a.t = "c" -> (IF Strip(a) = Strip(b) THEN 0 ELSE 2)

-----------------------------------------------------------------------------
(* core words.  WordRes: [out: Seq(stack), err: 0/1, hard: BOOLEAN]        *)

Yield1(stk) == [out |-> <<stk>>, err |-> 0, hard |-> FALSE]
YieldN(stks) == [out |-> stks, err |-> 0, hard |-> FALSE]
Nothing     == [out |-> <<>>, err |-> 0, hard |-> FALSE]
SoftErr     == [out |-> <<>>, err |-> 1, hard |-> FALSE]
HardErr     == [out |-> <<>>, err |-> 0, hard |-> TRUE]

Depth(stk) == Len(stk)
Top(stk)  == stk[Len(stk)]
Sec(stk)  == stk[Len(stk) - 1]
Pop1(stk) == SubSeq(stk, 1, Len(stk) - 1)
Pop2(stk) == SubSeq(stk, 1, Len(stk) - 2)
Pop3(stk) == SubSeq(stk, 1, Len(stk) - 3)
Push(stk, v) == Append(stk, v)

FloorDiv(a, b) ==
    IF b > 0 THEN (IF a >= 0 THEN a \div b ELSE -((-a + b - 1) \div b))
    ELSE (IF a <= 0 THEN (-a) \div (-b) ELSE -((a + (-b) - 1) \div (-b)))
FloorMod(a, b) == a - b * FloorDiv(a, b)

ArithWords == {"add", "sub", "mul", "div", "mod"}
CmpWords == {"?eq", "!eq", "?ne", "!ne", "?lt", "!lt", "?gt", "!gt",
             "?le", "!le", "?ge", "!ge"}

\* relation a OP b on three-way result c (2 = unequal, unordered)
CmpHolds(w, c) ==
    CASE w \in {"?eq", "!ne"} -> c = 0
      [] w \in {"!eq", "?ne"} -> c # 0
      [] w \in {"?lt", "!ge"} -> c = -1
      [] w \in {"!lt", "?ge"} -> c \in {0, 1}
      [] w \in {"?gt", "!le"} -> c = 1
      [] w \in {"!gt", "?le"} -> c \in {0, -1}

\* Comparison of values of different types: ordered by type, consistently with the order
\* of sequences and stacks (the value whose type code is smaller sorts first).
CrossCmp(a, b) == IF TypeCode(a) < TypeCode(b) THEN -1 ELSE 1

Word(w, stk) ==
    CASE w = "dup"  -> IF Depth(stk) < 1 THEN HardErr ELSE Yield1(Push(stk, Top(stk)))
      [] w = "drop" -> IF Depth(stk) < 1 THEN HardErr ELSE Yield1(Pop1(stk))
      [] w = "swap" -> IF Depth(stk) < 2 THEN HardErr
                       ELSE Yield1(Push(Push(Pop2(stk), Top(stk)), Sec(stk)))
      [] w = "over" -> IF Depth(stk) < 2 THEN HardErr ELSE Yield1(Push(stk, Sec(stk)))
      [] w = "rot"  -> IF Depth(stk) < 3 THEN HardErr
                       ELSE LET a == stk[Len(stk)] b == stk[Len(stk) - 1] c == stk[Len(stk) - 2]
                            IN Yield1(Push(Push(Push(Pop3(stk), b), a), c))
      [] w \in ArithWords ->
            IF Depth(stk) < 2 THEN SoftErr
            ELSE LET a == Sec(stk) b == Top(stk) IN
              IF a.t = "i" /\ b.t = "i" THEN
                 IF w \in {"div", "mod"} /\ b.i = 0 THEN SoftErr
                 ELSE LET r == CASE w = "add" -> a.i + b.i
                                  [] w = "sub" -> a.i - b.i
                                  [] w = "mul" -> a.i * b.i
                                  [] w = "div" -> FloorDiv(a.i, b.i)
                                  [] w = "mod" -> FloorMod(a.i, b.i)
                          dom == IF a.d \in {"dec", "pos"} THEN b.d ELSE a.d  \* plain domains yield
                      IN Yield1(Push(Pop2(stk), IntD(r, dom)))
              ELSE IF w = "add" /\ a.t = "s" /\ b.t = "s"
                   THEN Yield1(Push(Pop2(stk), StrV(a.s \o b.s)))
              ELSE IF w = "add" /\ a.t = "q" /\ b.t = "q"
                   THEN Yield1(Push(Pop2(stk), SeqV(a.q \o b.q)))
              ELSE SoftErr
      [] w = "length" ->
            IF Depth(stk) < 1 THEN SoftErr
            ELSE IF Top(stk).t = "q" THEN Yield1(Push(Pop1(stk), IntV(Len(Top(stk).q))))
            ELSE IF Top(stk).t = "s" THEN Yield1(Push(Pop1(stk), IntV(Len(Top(stk).s))))
            ELSE SoftErr
      [] w = "elem" ->
            IF Depth(stk) < 1 THEN SoftErr
            ELSE IF Top(stk).t = "q"
                 THEN YieldN([j \in 1..Len(Top(stk).q) |->
                                Push(Pop1(stk), WithPos(Top(stk).q[j], j - 1))])
                 ELSE IF Top(stk).t = "s"
                 THEN YieldN([j \in 1..Len(Top(stk).s) |->
                                Push(Pop1(stk), WithPos(StrV(<<Top(stk).s[j]>>), j - 1))])
                 ELSE SoftErr
      [] w = "relem" ->
            IF Depth(stk) < 1 THEN SoftErr
            ELSE IF Top(stk).t = "q"
                 THEN LET n == Len(Top(stk).q) IN
                      YieldN([j \in 1..n |->
                                Push(Pop1(stk), WithPos(Top(stk).q[n + 1 - j], j - 1))])
                 ELSE IF Top(stk).t = "s"
                 THEN LET n == Len(Top(stk).s) IN
                      YieldN([j \in 1..n |->
                                Push(Pop1(stk), WithPos(StrV(<<Top(stk).s[n + 1 - j]>>), j - 1))])
                 ELSE SoftErr
      [] w = "value" ->
            IF Depth(stk) < 1 THEN SoftErr
            ELSE IF Top(stk).t = "i" THEN Yield1(Push(Pop1(stk), IntV(Top(stk).i)))
            ELSE SoftErr
      [] w = "pos" ->
            IF Depth(stk) < 1 THEN HardErr
            ELSE Yield1(Push(Pop1(stk), IntD(Top(stk).pos, "pos")))
      [] w = "type" ->
            IF Depth(stk) < 1 THEN HardErr
            ELSE Yield1(Push(Pop1(stk), IntD(TypeCode(Top(stk)), "T")))
      [] w \in {"?empty", "!empty"} ->
            IF Depth(stk) < 1 THEN SoftErr
            ELSE IF Top(stk).t = "q"
                 THEN IF (Len(Top(stk).q) = 0) = (w = "?empty") THEN Yield1(stk) ELSE Nothing
                 ELSE IF Top(stk).t = "s"
                 THEN IF (Len(Top(stk).s) = 0) = (w = "?empty") THEN Yield1(stk) ELSE Nothing
                 ELSE SoftErr
      [] w \in {"?find", "!find", "?starts", "!starts", "?ends", "!ends"} ->
            \* A (below) is the haystack, B (TOS) the needle
            IF Depth(stk) < 2 THEN SoftErr
            ELSE LET a == Sec(stk) b == Top(stk) IN
                 IF ~((a.t = "s" /\ b.t = "s") \/ (a.t = "q" /\ b.t = "q")) THEN SoftErr
                 ELSE LET hay == IF a.t = "s" THEN a.s ELSE [j \in 1..Len(a.q) |-> Strip(a.q[j])]
                          nee == IF b.t = "s" THEN b.s ELSE [j \in 1..Len(b.q) |-> Strip(b.q[j])]
                          n == Len(nee) m == Len(hay)
                          at(i) == i + n - 1 <= m /\ SubSeq(hay, i, i + n - 1) = nee
                          holds == CASE w \in {"?find", "!find"} -> \E i \in 1..(m + 1) : at(i)
                                     [] w \in {"?starts", "!starts"} -> at(1)
                                     [] w \in {"?ends", "!ends"} -> n <= m /\ at(m - n + 1)
                      IN IF holds = (w \in {"?find", "?starts", "?ends"}) THEN Yield1(stk) ELSE Nothing
      [] w \in {"hex", "dec", "oct", "bin"} ->
            IF Depth(stk) < 1 THEN HardErr
            ELSE IF Top(stk).t = "i" THEN Yield1(Push(Pop1(stk), IntD(Top(stk).i, w)))
            ELSE SoftErr
      [] w \in CmpWords ->
            IF Depth(stk) < 2 THEN HardErr
            \* the hidden closure type is exempt from the ordering laws: not modelled
            ELSE IF Sec(stk).t = "c" \/ Top(stk).t = "c" THEN HardErr
            ELSE LET a == Sec(stk) b == Top(stk)
                     c == IF a.t = b.t THEN CmpV(a, b) ELSE CrossCmp(a, b)
                 IN IF CmpHolds(w, c) THEN Yield1(stk) ELSE Nothing
      [] OTHER -> HardErr

\* ?N / !N position assertions
PosWord(positive, n, stk) ==
    IF Depth(stk) < 1 THEN HardErr
    ELSE IF (Top(stk).pos = n) = positive THEN Yield1(stk) ELSE Nothing

-----------------------------------------------------------------------------
(* abstract syntax -- see the header of DESIGN.md 3.2                      *)

Emp           == [k |-> "emp"]
Lit(n)        == [k |-> "lit", n |-> n]
EList         == [k |-> "elist"]                                   \* []
Str(s)        == [k |-> "str", w |-> s]
W(w)          == [k |-> "word", w |-> w]
PosW(p, n)    == [k |-> "posw", p |-> p, n |-> n]
Name(n)       == [k |-> "name", w |-> n]
Cat(a, b)     == [k |-> "cat", a |-> a, b |-> b]
Alt(a, b)     == [k |-> "alt", a |-> a, b |-> b]
Or(a, b)      == [k |-> "or", a |-> a, b |-> b]
Cap(a)        == [k |-> "cap", ids |-> <<>>, a |-> a]
CapB(ids, a)  == [k |-> "cap", ids |-> ids, a |-> a]
Scope(ids, a) == [k |-> "scope", ids |-> ids, a |-> a]
Sub(w, a)     == [k |-> "sub", w |-> w, ids |-> <<>>, a |-> a]     \* w: "?" or "!"
SubB(w, ids, a) == [k |-> "sub", w |-> w, ids |-> ids, a |-> a]
Infix(w, a, b) == [k |-> "infix", w |-> w, a |-> a, b |-> b]       \* w: "==", "<", ...
Let(ids, a)   == [k |-> "let", ids |-> ids, a |-> a]
If(c, a, b)   == [k |-> "if", c |-> c, a |-> a, b |-> b]
Star(a)       == [k |-> "star", a |-> a]
Plus(a)       == [k |-> "plus", a |-> a]
Opt(a)        == [k |-> "opt", a |-> a]
Fmt(parts)    == [k |-> "fmt", parts |-> parts]   \* parts: Seq of [lit |-> "x"] | [e |-> ast]
FLit(s)       == [lit |-> s]
FExp(e)       == [e |-> e]
Block(ids, a) == [k |-> "block", ids |-> ids, a |-> a]
LetF(f, a)    == [k |-> "letf", w |-> f, a |-> a]                  \* let F := {a};
BApplyB(ids, a) == [k |-> "bapply", ids |-> ids, a |-> a]          \* {|ids| a} apply
BApply(a)     == BApplyB(<<>>, a)                                  \* {a} apply

InfixWord(op) ==
    CASE op = "==" -> "?eq" [] op = "!=" -> "?ne" [] op = "<" -> "?lt"
      [] op = "<=" -> "?le" [] op = ">" -> "?gt" [] op = ">=" -> "?ge"

-----------------------------------------------------------------------------
(* static well-formedness: names.  Returns BERR or the record             *)
(* [cur |-> names bound in the current scope, vis |-> visible names].      *)

BERR == [err |-> TRUE]
IsErr(r) == "err" \in DOMAIN r
BAD == [bad |-> TRUE]
IsBad(r) == "bad" \in DOMAIN r
Range(s) == {s[j] : j \in 1..Len(s)}
Distinct(s) == Cardinality(Range(s)) = Len(s)

RECURSIVE Bind(_, _, _)
RECURSIVE BindParts(_, _, _, _)
NewScope(p, vis) == Bind(p, {}, vis)
ScopeWith(ids, p, vis) ==
    IF ~Distinct(ids) THEN BERR ELSE Bind(p, Range(ids), vis \cup Range(ids))
Bind(p, cur, vis) ==
    LET same == [cur |-> cur, vis |-> vis] IN
    CASE p.k \in {"emp", "lit", "str", "word", "posw", "elist"} -> same
      [] p.k = "name" -> IF p.w \in vis THEN same ELSE BERR
      [] p.k = "cat" -> LET r == Bind(p.a, cur, vis) IN
                        IF IsErr(r) THEN BERR ELSE Bind(p.b, r.cur, r.vis)
      [] p.k \in {"alt", "or"} ->
            IF IsErr(NewScope(p.a, vis)) \/ IsErr(NewScope(p.b, vis)) THEN BERR ELSE same
      [] p.k = "infix" ->
            IF IsErr(NewScope(p.a, vis)) \/ IsErr(NewScope(p.b, vis)) THEN BERR ELSE same
      [] p.k = "scope" /\ Len(p.ids) = 0 -> Bind(p.a, cur, vis)   \* plain parentheses
      [] p.k \in {"sub", "scope", "block"} ->
            IF IsErr(ScopeWith(p.ids, p.a, vis)) THEN BERR ELSE same
      [] p.k = "cap" ->
            \* the id block of a capture lives in a scope of its own around the body's scope
            IF ~Distinct(p.ids) THEN BERR
            ELSE IF IsErr(NewScope(p.a, vis \cup Range(p.ids))) THEN BERR ELSE same
      [] p.k = "let" ->
            IF IsErr(NewScope(p.a, vis)) THEN BERR
            ELSE IF ~Distinct(p.ids) \/ Range(p.ids) \cap cur # {} THEN BERR
            ELSE [cur |-> cur \cup Range(p.ids), vis |-> vis \cup Range(p.ids)]
      [] p.k = "letf" ->
            IF IsErr(NewScope(p.a, vis)) THEN BERR
            ELSE IF p.w \in cur THEN BERR
            ELSE [cur |-> cur \cup {p.w}, vis |-> vis \cup {p.w}]
      [] p.k = "bapply" -> IF IsErr(ScopeWith(p.ids, p.a, vis)) THEN BERR ELSE same
      [] p.k = "if" ->
            IF IsErr(NewScope(p.c, vis)) \/ IsErr(NewScope(p.a, vis))
               \/ IsErr(NewScope(p.b, vis)) THEN BERR ELSE same
      [] p.k \in {"star", "plus", "opt"} ->
            IF IsErr(NewScope(p.a, vis)) THEN BERR ELSE same
      [] p.k = "fmt" -> BindParts(p.parts, 1, cur, vis)
BindParts(parts, j, cur, vis) ==
    IF j > Len(parts) THEN [cur |-> cur, vis |-> vis]
    ELSE IF "lit" \in DOMAIN parts[j] THEN BindParts(parts, j + 1, cur, vis)
    ELSE IF IsErr(NewScope(parts[j].e, vis)) THEN BERR
    ELSE BindParts(parts, j + 1, cur, vis)

WellFormed(p) == ~IsErr(Bind(p, {}, {}))

-----------------------------------------------------------------------------
(* static stack effect: BAD or [need |-> depth required, delta |-> net]. *)
(* Branches of ALT/OR/if must agree on delta, closure bodies need delta 0. *)
(* Programs outside this discipline are outside the documented language.   *)

Eff1(need, delta) == [need |-> need, delta |-> delta]

WordEff(w) ==
    CASE w = "dup" -> Eff1(1, 1) [] w = "drop" -> Eff1(1, -1)
      [] w = "swap" -> Eff1(2, 0) [] w = "over" -> Eff1(2, 1) [] w = "rot" -> Eff1(3, 0)
      [] w \in ArithWords -> Eff1(2, -1)
      [] w \in {"length", "elem", "relem", "value", "pos", "type"} -> Eff1(1, 0)
      [] w \in {"?empty", "!empty", "hex", "dec", "oct", "bin"} -> Eff1(1, 0)
      [] w \in {"?find", "!find", "?starts", "!starts", "?ends", "!ends"} -> Eff1(2, 0)
      [] w \in CmpWords -> Eff1(2, 0)
      [] w = "apply" -> BAD      \* effect depends on the closure: not in this fragment
      [] OTHER -> BAD

\* x, where the result must have at least one value to take from the top
NeedTop(x) == Eff1(Max(x.need, 1 - x.delta), x.delta)

RECURSIVE Eff(_)
RECURSIVE EffParts(_, _, _)
SeqEff(x, y) ==   \* x then y
    IF IsBad(x) \/ IsBad(y) THEN BAD
    ELSE Eff1(Max(x.need, y.need - x.delta), x.delta + y.delta)
Eff(p) ==
    CASE p.k = "emp" -> Eff1(0, 0)
      [] p.k \in {"lit", "str", "name", "elist"} -> Eff1(0, 1)
      [] p.k = "word" -> WordEff(p.w)
      [] p.k = "posw" -> Eff1(1, 0)
      [] p.k = "cat" -> SeqEff(Eff(p.a), Eff(p.b))
      [] p.k \in {"alt", "or"} ->
            LET x == Eff(p.a) y == Eff(p.b) IN
            IF IsBad(x) \/ IsBad(y) THEN BAD
            ELSE IF x.delta # y.delta THEN BAD
            ELSE Eff1(Max(x.need, y.need), x.delta)
      [] p.k = "scope" ->
            SeqEff(Eff1(Len(p.ids), -Len(p.ids)), Eff(p.a))
      [] p.k = "cap" ->
            LET x == SeqEff(Eff1(Len(p.ids), -Len(p.ids)), Eff(p.a)) IN
            IF IsBad(x) THEN BAD
            \* the body must leave something to capture on top
            ELSE Eff1(NeedTop(x).need, 1 - Len(p.ids))
      [] p.k = "sub" ->
            LET x == SeqEff(Eff1(Len(p.ids), -Len(p.ids)), Eff(p.a)) IN
            IF IsBad(x) THEN BAD ELSE Eff1(x.need, 0)
      [] p.k = "infix" ->
            LET x == Eff(p.a) y == Eff(p.b) IN
            IF IsBad(x) \/ IsBad(y) THEN BAD
            ELSE Eff1(Max(NeedTop(x).need, NeedTop(y).need), 0)
      [] p.k = "let" ->
            LET x == Eff(p.a) IN
            IF IsBad(x) THEN BAD
            ELSE Eff1(Max(x.need, Len(p.ids) - x.delta), 0)
      [] p.k = "if" ->
            LET c == Eff(p.c) x == Eff(p.a) y == Eff(p.b) IN
            IF IsBad(c) \/ IsBad(x) \/ IsBad(y) THEN BAD
            ELSE IF x.delta # y.delta THEN BAD
            ELSE Eff1(Max(c.need, Max(x.need, y.need)), x.delta)
      [] p.k \in {"star", "plus"} ->
            LET x == Eff(p.a) IN
            IF IsBad(x) THEN BAD ELSE IF x.delta # 0 THEN BAD ELSE x
      [] p.k = "opt" ->
            LET x == Eff(p.a) IN
            IF IsBad(x) THEN BAD ELSE IF x.delta # 0 THEN BAD ELSE x
      [] p.k = "fmt" -> EffParts(p.parts, Len(p.parts), Eff1(0, 0))
      [] p.k = "block" -> Eff1(0, 1)
      [] p.k = "letf" ->
            \* blocks bound to names are thunks in this fragment: (0, +1)
            LET x == Eff(p.a) IN
            IF IsBad(x) THEN BAD ELSE IF x.need # 0 \/ x.delta # 1 THEN BAD ELSE Eff1(0, 0)
      [] p.k = "bapply" -> SeqEff(Eff1(Len(p.ids), -Len(p.ids)), Eff(p.a))
\* splices are resolved right to left, each popping the TOS its body leaves
EffParts(parts, j, acc) ==
    IF IsBad(acc) THEN BAD
    ELSE IF j = 0 THEN SeqEff(acc, Eff1(0, 1))
    ELSE IF "lit" \in DOMAIN parts[j] THEN EffParts(parts, j - 1, acc)
    ELSE LET x == Eff(parts[j].e) IN
         IF IsBad(x) THEN BAD
         ELSE EffParts(parts, j - 1, SeqEff(acc, SeqEff(NeedTop(x), Eff1(1, -1))))

\* A program of the documented language that runs on an empty input stack.
Legal(p) == WellFormed(p) /\ ~IsBad(Eff(p)) /\ Eff(p).need = 0

-----------------------------------------------------------------------------
(* the denotation.  Res: [out: Seq([s: stack, e: env]), lo, hi: bounds on   *)
(* the number of diagnostics, hard: BOOLEAN (a hard error: outside the      *)
(* compared behaviour)].                                                    *)

EmptyEnv == <<>>   \* function with empty domain
EnvPut(env, n, v) == (n :> v) @@ env

ResOf(out) == [out |-> out, lo |-> 0, hi |-> 0, hard |-> FALSE]
R1(s, e) == [s |-> s, e |-> e]

\* x, then for every result of x the continuation K(result)
RECURSIVE BindResAux(_, _, _, _)
BindResAux(K(_), outs, j, acc) ==
    IF j > Len(outs) THEN acc
    ELSE LET r == K(outs[j]) IN
         BindResAux(K, outs, j + 1,
                    [out |-> acc.out \o r.out, lo |-> acc.lo + r.lo,
                     hi |-> acc.hi + r.hi, hard |-> acc.hard \/ r.hard])
BindRes(x, K(_)) ==
    BindResAux(K, x.out, 1, [out |-> <<>>, lo |-> x.lo, hi |-> x.hi, hard |-> x.hard])

FromWord(wr, env) ==
    [out |-> [j \in 1..Len(wr.out) |-> R1(wr.out[j], env)],
     lo |-> wr.err, hi |-> wr.err, hard |-> wr.hard]

\* pop Len(ids) values and bind them, rightmost id to TOS
RECURSIVE BindIds(_, _, _)
BindIds(ids, stk, env) ==
    IF Len(ids) = 0 THEN R1(stk, env)
    ELSE BindIds(Front(ids), Pop1(stk), EnvPut(env, Last(ids), Top(stk)))

\* An evaluation that is abandoned after its first result (assertion
\* contexts): if it yields, an unknown part of its diagnostics is emitted.
Abandon(x) == IF Len(x.out) > 0 THEN [x EXCEPT !.lo = 0] ELSE x

\* set of stacks (positions stripped) -> used by closures
RECURSIVE Den(_, _, _)
RECURSIVE DenParts(_, _, _, _, _)
RECURSIVE Closure(_, _, _, _, _)

WrapStacks(x, env) == [x EXCEPT !.out = [j \in 1..Len(x.out) |-> R1(x.out[j], env)]]
SetEnv(x, env) == [x EXCEPT !.out = [j \in 1..Len(x.out) |-> R1(x.out[j].s, env)]]

\* E* on the work list `todo` (stacks still to be expanded); `seen` is the
\* set of stripped stacks already yielded.  Results in discovery order.
Closure(body, env, todo, seen, acc) ==
    IF Len(todo) = 0 THEN acc
    ELSE IF Cardinality(seen) > 24 THEN [acc EXCEPT !.hard = TRUE]   \* treated as divergent
    ELSE LET x == Den(body, env, Head(todo))
             new == SelectSeq(MapSeq(LAMBDA r: r.s, x.out), LAMBDA s: TRUE)
             \* dedup, preserving first occurrence
             F[j \in 0..Len(new)] ==
                IF j = 0 THEN [seen |-> seen, add |-> <<>>]
                ELSE LET pr == F[j - 1] IN
                     IF StripStk(new[j]) \in pr.seen THEN pr
                     ELSE [seen |-> pr.seen \cup {StripStk(new[j])},
                           add |-> Append(pr.add, new[j])]
             fin == F[Len(new)]
         IN Closure(body, env, Tail(todo) \o fin.add, fin.seen,
                    [out |-> acc.out \o fin.add, lo |-> acc.lo + x.lo,
                     hi |-> acc.hi + x.hi, hard |-> acc.hard \/ x.hard])

Den(p, env, stk) ==
    CASE p.k = "emp"  -> ResOf(<<R1(stk, env)>>)
      [] p.k = "lit"  -> ResOf(<<R1(Push(stk, IntV(p.n)), env)>>)
      [] p.k = "elist" -> ResOf(<<R1(Push(stk, SeqV(<<>>)), env)>>)
      [] p.k = "str"  -> ResOf(<<R1(Push(stk, StrV(p.w)), env)>>)
      [] p.k = "word" -> FromWord(Word(p.w, stk), env)
      [] p.k = "posw" -> FromWord(PosWord(p.p, p.n, stk), env)
      [] p.k = "name" ->
            \* a name pushes the bound value; a bound block is applied
            LET v == env[p.w] IN
            IF v.t = "c" THEN SetEnv(Den(v.b, v.e, stk), env)
            ELSE ResOf(<<R1(Push(stk, v), env)>>)
      [] p.k = "cat"  -> BindRes(Den(p.a, env, stk), LAMBDA r: Den(p.b, r.e, r.s))
      [] p.k = "alt"  ->
            LET x == SetEnv(Den(p.a, env, stk), env)
                y == SetEnv(Den(p.b, env, stk), env)
            IN [out |-> x.out \o y.out, lo |-> x.lo + y.lo, hi |-> x.hi + y.hi,
                hard |-> x.hard \/ y.hard]
      [] p.k = "or"   ->
            LET x == SetEnv(Den(p.a, env, stk), env) IN
            IF Len(x.out) > 0 THEN x
            ELSE LET y == SetEnv(Den(p.b, env, stk), env) IN
                 [y EXCEPT !.lo = x.lo + y.lo, !.hi = x.hi + y.hi, !.hard = x.hard \/ y.hard]
      [] p.k = "scope" ->
            IF Depth(stk) < Len(p.ids) THEN [ResOf(<<>>) EXCEPT !.hard = TRUE]
            ELSE IF Len(p.ids) = 0 THEN Den(p.a, env, stk)         \* plain parentheses
            ELSE LET b == BindIds(p.ids, stk, env) IN SetEnv(Den(p.a, b.e, b.s), env)
      [] p.k = "cap" ->
            IF Depth(stk) < Len(p.ids) THEN [ResOf(<<>>) EXCEPT !.hard = TRUE]
            ELSE LET b == BindIds(p.ids, stk, env)
                     x == Den(p.a, b.e, b.s)
                     hardx == x.hard \/ (\E j1 \in 1..Len(x.out) : Depth(x.out[j1].s) = 0)
                 IN IF hardx THEN [ResOf(<<>>) EXCEPT !.hard = TRUE]
                    ELSE [out |-> <<R1(Push(b.s, SeqV([j \in 1..Len(x.out) |-> Top(x.out[j].s)])),
                                       env)>>,
                          lo |-> x.lo, hi |-> x.hi, hard |-> FALSE]
      [] p.k = "sub" ->
            IF Depth(stk) < Len(p.ids) THEN [ResOf(<<>>) EXCEPT !.hard = TRUE]
            ELSE LET b == BindIds(p.ids, stk, env)
                     x == Abandon(Den(p.a, b.e, b.s))
                     holds == (Len(x.out) > 0) = (p.w = "?")
                 IN [out |-> IF holds THEN <<R1(stk, env)>> ELSE <<>>,
                     lo |-> x.lo, hi |-> x.hi, hard |-> x.hard]
      [] p.k = "infix" ->
            \* ?(let .a := E1; let .b := E2; .a .b OP)
            LET x == Den(p.a, env, stk)
                y == Den(p.b, env, stk)
                pairs == FlatMap(LAMBDA rx: MapSeq(LAMBDA ry: <<rx, ry>>, y.out), x.out)
                bad == x.hard \/ y.hard
                       \/ (\E j1 \in 1..Len(x.out) : Depth(x.out[j1].s) = 0)
                       \/ (\E j2 \in 1..Len(y.out) : Depth(y.out[j2].s) = 0)
                one(pr) == Word(InfixWord(p.w), <<Top(pr[1].s), Top(pr[2].s)>>)
                any == ~bad /\ (\E j3 \in 1..Len(pairs) : Len(one(pairs[j3]).out) > 0)
                \* E2 is evaluated once per result of E1 (all of them unless abandoned)
                hi == x.hi + Len(x.out) * y.hi
                lo == IF any THEN 0 ELSE hi
            IN IF bad THEN [ResOf(<<>>) EXCEPT !.hard = TRUE]
               ELSE [out |-> IF any THEN <<R1(stk, env)>> ELSE <<>>,
                     lo |-> lo, hi |-> hi, hard |-> FALSE]
      [] p.k = "let" ->
            LET x == Den(p.a, env, stk)
                bad == x.hard \/ (\E j1 \in 1..Len(x.out) : Depth(x.out[j1].s) < Len(p.ids))
            IN IF bad THEN [ResOf(<<>>) EXCEPT !.hard = TRUE]
               ELSE [out |-> [j \in 1..Len(x.out) |->
                                R1(stk, BindIds(p.ids, x.out[j].s, env).e)],
                     lo |-> x.lo, hi |-> x.hi, hard |-> FALSE]
      [] p.k = "if" ->
            LET c == Abandon(Den(p.c, env, stk))
                body == IF Len(c.out) > 0 THEN p.a ELSE p.b
                x == SetEnv(Den(body, env, stk), env)
            IN [x EXCEPT !.lo = c.lo + x.lo, !.hi = c.hi + x.hi, !.hard = c.hard \/ x.hard]
      [] p.k = "star" ->
            WrapStacks(Closure(p.a, env, <<stk>>, {StripStk(stk)}, ResOf(<<stk>>)), env)
      [] p.k = "plus" ->
            \* E+ = the distinct stacks of E E*
            LET x == Den(p.a, env, stk)
                first == MapSeq(LAMBDA r: r.s, x.out)
                F[j \in 0..Len(first)] ==
                   IF j = 0 THEN [seen |-> {}, add |-> <<>>]
                   ELSE LET pr == F[j - 1] IN
                        IF StripStk(first[j]) \in pr.seen THEN pr
                        ELSE [seen |-> pr.seen \cup {StripStk(first[j])},
                              add |-> Append(pr.add, first[j])]
                fin == F[Len(first)]
            IN WrapStacks(Closure(p.a, env, fin.add, fin.seen,
                       [out |-> fin.add, lo |-> x.lo, hi |-> x.hi, hard |-> x.hard]), env)
      [] p.k = "opt" ->
            LET x == SetEnv(Den(p.a, env, stk), env) IN
            [x EXCEPT !.out = x.out \o <<R1(stk, env)>>]
      [] p.k = "fmt" -> DenParts(p.parts, Len(p.parts), env, <<[s |-> stk, str |-> <<>>]>>, ResOf(<<>>))
      [] p.k = "block" ->
            ResOf(<<R1(Push(stk, CloV(Scope(p.ids, p.a), env)), env)>>)
      [] p.k = "letf" ->
            ResOf(<<R1(stk, EnvPut(env, p.w, CloV(Scope(<<>>, p.a), env)))>>)
      [] p.k = "bapply" ->
            \* the block takes its arguments from the stack that apply finds under it
            IF Depth(stk) < Len(p.ids) THEN [ResOf(<<>>) EXCEPT !.hard = TRUE]
            ELSE LET b == BindIds(p.ids, stk, env) IN SetEnv(Den(p.a, b.e, b.s), env)

\* Format strings.  `cur` is a sequence of partial results [s: stack, str:
\* text to the right].  Parts are processed right to left.
DenParts(parts, j, env, cur, acc) ==
    IF j = 0
    THEN [out |-> [i \in 1..Len(cur) |->
                     R1(Push(cur[i].s, WithPos(StrV(cur[i].str), i - 1)), env)],
          lo |-> acc.lo, hi |-> acc.hi, hard |-> acc.hard]
    ELSE IF "lit" \in DOMAIN parts[j]
    THEN DenParts(parts, j - 1, env,
                  [i \in 1..Len(cur) |-> [cur[i] EXCEPT !.str = parts[j].lit \o @]], acc)
    ELSE LET step(c) ==
                LET x == Den(parts[j].e, env, c.s) IN
                [out |-> [i \in 1..Len(x.out) |->
                            IF Depth(x.out[i].s) = 0 THEN [s |-> <<>>, str |-> <<>>, bad |-> TRUE]
                            ELSE [s |-> Pop1(x.out[i].s),
                                  str |-> Show(Top(x.out[i].s)) \o c.str, bad |-> FALSE]],
                 lo |-> x.lo, hi |-> x.hi, hard |-> x.hard]
             rs == MapSeq(step, cur)
             outs == FlatMap(LAMBDA r: r.out, rs)
             hard == acc.hard \/ (\E i \in 1..Len(rs) : rs[i].hard)
                     \/ (\E i \in 1..Len(outs) : outs[i].bad)
         IN DenParts(parts, j - 1, env,
                     [i \in 1..Len(outs) |-> [s |-> outs[i].s, str |-> outs[i].str]],
                     [out |-> <<>>, lo |-> acc.lo + SumSeq(LAMBDA r: r.lo, rs),
                      hi |-> acc.hi + SumSeq(LAMBDA r: r.hi, rs), hard |-> hard])

\* Top-level: the results (stacks only) of p on the empty stack.
Run(p) == LET x == Den(p, EmptyEnv, <<>>) IN
          [out |-> [j \in 1..Len(x.out) |-> x.out[j].s], lo |-> x.lo, hi |-> x.hi,
           hard |-> x.hard]

=============================================================================
