------------------------------ MODULE AtValGen ------------------------------
EXTENDS AtVal, Json, SequencesExt
CONSTANT OutFile
ASSUME PrintT(<<"ATVAL", Cardinality(Descs), Cardinality({d \in Descs : ~Agree(d)})>>)
ASSUME LET sq == SetToSeq(Descs) IN
       ndJsonSerialize(OutFile, [j \in 1..Len(sq) |-> [d |-> sq[j], documented |-> Documented(sq[j]), code |-> Code(sq[j])]]
                                \o [j \in 1..Len(EnumAttrs) |-> [enumattr |-> EnumAttrs[j], forms |-> EnumForms]]
                                \o [j \in 1..Len(FormTable) |-> [formrow |-> FormTable[j], branch |-> Branch(FormTable[j].form)]])
ASSUME PrintT(<<"FORMS", Transparent, DirectIsDirect>>)
=============================================================================
