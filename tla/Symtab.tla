------------------------------- MODULE Symtab -------------------------------
(***************************************************************************)
(* ELF symbols (builtin-symbol.cc, value-symbol.cc).  A table is a         *)
(* sequence of symbols [name, value, size, type, bind, vis]; entry 0 is    *)
(* the null symbol of every ELF symbol table.  `symbol' yields every entry *)
(* once, in table order, numbered from zero.  Type and binding are shown   *)
(* in the constant family of the file's machine: ARM, SPARC and PARISC     *)
(* have their own STT_ families, MIPS its own STB_ family, every family    *)
(* shares the generic codes below LOOS (10) with all others.               *)
(***************************************************************************)
EXTENDS Naturals, Sequences, FiniteSets, TLC

Machines == {"x86_64", "arm", "sparc", "mips", "ppc64"}
SttFamily(m) == IF m \in {"arm", "sparc"} THEN m ELSE "gen"
StbFamily(m) == IF m = "mips" THEN "mips" ELSE "gen"
LOOS == 10
Class(fam, code) == IF code < LOOS THEN "gen" ELSE fam

\* two type / binding constants coming from files of machines m1, m2 compare equal iff
TypeEq(m1, t1, m2, t2) == t1 = t2 /\ Class(SttFamily(m1), t1) = Class(SttFamily(m2), t2)
BindEq(m1, b1, m2, b2) == b1 = b2 /\ Class(StbFamily(m1), b1) = Class(StbFamily(m2), b2)

\* MECHANISM: symbol_producer over one module
RECURSIVE Produce(_, _, _)
Produce(tab, idx, pos) ==
    IF idx >= Len(tab) THEN <<>>
    ELSE <<[sym |-> tab[idx + 1], symidx |-> idx, pos |-> pos]>> \o Produce(tab, idx + 1, pos + 1)

Null == [name |-> "", type |-> 0, bind |-> 0, vis |-> 0]
Types == {0, 1, 2, 10, 13}
Binds == {0, 1, 2, 13}
Syms == [name: {"a", "b"}, type: Types, bind: Binds, vis: 0..3]
Tables(n) == UNION {{<<Null>> \o s : s \in [1..k -> Syms]} : k \in 0..n}

\* each entry exactly once, in order, numbered from zero
ProducerOK(tab) ==
    LET out == Produce(tab, 0, 0) IN
    /\ Len(out) = Len(tab)
    /\ \A i \in 1..Len(out) : out[i].sym = tab[i] /\ out[i].symidx = i - 1 /\ out[i].pos = i - 1

\* machine-specific codes are never equal to another machine's; generic ones always are
FamilyLaws ==
    /\ \A m1, m2 \in Machines : \A t \in Types : t < LOOS => TypeEq(m1, t, m2, t)
    /\ ~TypeEq("arm", 13, "sparc", 13) /\ ~TypeEq("arm", 13, "x86_64", 13) /\ TypeEq("ppc64", 13, "x86_64", 13)
    /\ ~BindEq("mips", 13, "arm", 13) /\ BindEq("arm", 13, "x86_64", 13)
=============================================================================
