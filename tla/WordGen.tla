------------------------------ MODULE WordGen ------------------------------
(***************************************************************************)
(* C11: every core word on every operand tuple of a value pool, the stack  *)
(* below the operands built through different push / drop histories; the   *)
(* expected outcome is Zw!Den (words: Zw!Word).                            *)
(***************************************************************************)
EXTENDS Progs0, Json, SequencesExt

CONSTANTS OutFile, Shard, NShards

Pool == <<Lit(0), Lit(1), Lit(2), Cat(Lit(3), W("hex")), Cat(Lit(2), W("oct")),
          Str(<<>>), Str(<<"a">>), Str(<<"a", "b">>), Str(<<"b", "a", "b">>), Str(<<"b">>),
          EList, Seq12, Cap(Lit(1)), Cap(Alt(Str(<<"a">>), Lit(1))), Cap(Cap(Lit(2))), Cap(Alt(Lit(2), Lit(1))),
          Block(<<>>, Lit(1)),
          \* strings with an embedded NUL byte that agree up to it (C11-m: a comparison through a C string stops there)
          Str(<<"a", "NUL", "b">>), Str(<<"a", "NUL", "c">>)>>

Unary == <<"dup", "drop", "length", "elem", "relem", "value", "pos", "type", "?empty", "!empty",
           "hex", "dec", "oct", "bin">>
Binary == <<"swap", "over", "add", "sub", "mul", "div", "mod", "?eq", "!eq", "?lt", "?ge",
            "?find", "!find", "?starts", "!starts", "?ends", "!ends">>

\* what lies below the operands, and how it got there
Junk == <<Emp,
          Lit(7),
          Cat(Str(<<"j">>), Cat(Lit(7), Cat(EList, Cat(Lit(8), Cat(Str(<<"k">>), Cat(W("drop"), W("drop"))))))),
          Cat(Lit(7), Cat(Lit(8), Cat(Lit(9), Cat(EList, Cat(Str(<<"j">>), Cat(Lit(6), Cat(W("drop"), Cat(W("drop"), W("drop")))))))))>>

Progs1 == {Cat(Junk[j], Cat(Pool[a], W(Unary[w]))) : j \in 1..Len(Junk), a \in 1..Len(Pool), w \in 1..Len(Unary)}
Progs2 == {Cat(Junk[j], Cat(Pool[a], Cat(Pool[b], W(Binary[w])))) :
              j \in 1..Len(Junk), a \in 1..Len(Pool), b \in 1..Len(Pool), w \in 1..Len(Binary)}
Progs3 == {Cat(Junk[j], Cat(Pool[a], Cat(Pool[b], Cat(Pool[c], W("rot"))))) :
              j \in 1..Len(Junk), a \in {1, 6, 11}, b \in {2, 7, 12}, c \in {3, 8, 13}}
\* results numbered afresh by every operation
Progs4 == {Cat(Pool[a], Cat(W("elem"), Cat(W(Unary[w]), W("pos")))) : a \in 1..Len(Pool), w \in 1..Len(Unary)}
          \cup {Cat(Pool[a], Cat(W("relem"), W("pos"))) : a \in 1..Len(Pool)}

\* operands that exist in several live copies (bound names, dup): the word must not change the other copies.
\* (One set per shape: TLC cannot compare a word record with a string record, both have the fields k and w.)
Progs5a == {Cat(Pool[a], Cat(Pool[b], Scope(<<"A", "B">>, Cat(Name("A"), Cat(Name("B"), Cat(W(Binary[w]), Cat(Name("A"), Name("B")))))))) :
              a \in 1..Len(Pool), b \in 1..Len(Pool), w \in 1..Len(Binary)}
Progs5b == {Cat(Pool[a], Scope(<<"A">>, Cat(Name("A"), Cat(Name("A"), Cat(W(Binary[w]), Name("A")))))) :
              a \in 1..Len(Pool), w \in 1..Len(Binary)}
Progs5c == {Cat(Pool[a], Cat(W("dup"), Cat(Pool[b], W(Binary[w])))) : a \in 1..Len(Pool), b \in 1..Len(Pool), w \in 1..Len(Binary)}
Progs5d == {Cat(Pool[a], Cat(W("dup"), Cat(W(Unary[w]), W("swap")))) : a \in 1..Len(Pool), w \in 1..Len(Unary)}

\* binary words whose left / right operand carries a position other than 0: the result is numbered afresh
Progs6a == {Cat(Pool[a], Cat(W("elem"), Cat(Pool[b], Cat(W(Binary[w]), W("pos"))))) :
              a \in 1..Len(Pool), b \in 1..Len(Pool), w \in 1..Len(Binary)}
Progs6b == {Cat(Pool[b], Cat(Pool[a], Cat(W("elem"), Cat(W(Binary[w]), W("pos"))))) :
              a \in 1..Len(Pool), b \in 1..Len(Pool), w \in 1..Len(Binary)}

All == SetToSeq(Progs1 \cup Progs2 \cup Progs3 \cup Progs4) \o SetToSeq(Progs5a) \o SetToSeq(Progs5b) \o SetToSeq(Progs5c) \o SetToSeq(Progs5d)
       \o SetToSeq(Progs6a) \o SetToSeq(Progs6b)
Mine == SelectSeq([j \in 1..Len(All) |-> [j |-> j, p |-> All[j]]], LAMBDA r: r.j % NShards = Shard)
Vec(p) == LET r == Run(p) IN
          IF r.hard THEN <<>> ELSE <<[ast |-> p, den |-> r.out, lo |-> r.lo, hi |-> r.hi, ordered |-> TRUE, kind |-> "word"]>>
ASSUME /\ ndJsonSerialize(OutFile, FlatMap(LAMBDA r: Vec(r.p), Mine))
       /\ PrintT(<<"GEN", "total", Len(All), "mine", Len(Mine), "legal", 0, "illformed", 0, "vectors", 0>>)
=============================================================================
