------------------------------ MODULE Progs ------------------------------
(***************************************************************************)
(* Replay-vector generation: TLC enumerates the programs of one family     *)
(* (Progs0), evaluates the meaning layer on each and writes ndjson.        *)
(***************************************************************************)
EXTENDS EngineOps, Json, TLCExt, SequencesExt

CONSTANTS MaxW,        \* maximal weight of the generated body
          Shard, NShards,
          OutFile,     \* ndjson file to write
          Family       \* which constructor/leaf family to enumerate

-----------------------------------------------------------------------------
Vectors(p) ==
    LET d == Max(1, Eff(p).need)
        sp == Cat(StreamSrc(d), Cat(Prefix(Family), p))
        op == Cat(SingleSrc(d), Cat(Prefix(Family), p))
        rs == Run(sp)
        ro == Run(op)
        es == EngineRun(sp)
        eo == EngineRun(op)
    IN (IF rs.hard THEN <<>>
        ELSE <<[ast |-> sp, den |-> rs.out, lo |-> rs.lo, hi |-> rs.hi, ordered |-> FALSE,
                kind |-> "stream", eng |-> NormOut(es.out), engok |-> ~(es.m.bad \/ es.m.hard)]>>)
       \o
       (IF ro.hard THEN <<>>
        ELSE <<[ast |-> op, den |-> ro.out, lo |-> ro.lo, hi |-> ro.hi,
                ordered |-> OrderFixed(p), kind |-> "single", eng |-> NormOut(eo.out),
                engok |-> ~(eo.m.bad \/ eo.m.hard)]>>)

\* Programs that are not closed / not well-formed: the compiler must reject
\* them (C03); bodies with an undefined stack effect are not generated.
IllFormed(p) == ~WellFormed(Cat(Prefix(Family), p))

MyShare(S) ==
    LET sq == SetToSeq(S) IN
    SelectSeq([j \in 1..Len(sq) |-> [j |-> j, p |-> sq[j]]], LAMBDA r: r.j % NShards = Shard)

GenVectors ==
    LET all == AllPS(Family, MaxW)
        mine == MyShare(all)
        good == SelectSeq(mine, LAMBDA r: BodyOKF(Family, r.p))
        illf == SelectSeq(mine, LAMBDA r: IllFormed(r.p))
        vecs == FlatMap(LAMBDA r: Vectors(r.p), good)
               \o [j \in 1..Len(illf) |-> [ast |-> illf[j].p, kind |-> "illformed"]]
    IN /\ ndJsonSerialize(OutFile, vecs)
       /\ PrintT(<<"GEN", "total", Cardinality(all), "mine", Len(mine), "legal", Len(good),
                   "illformed", Len(illf), "vectors", Len(vecs)>>)

ASSUME GenVectors
=============================================================================
