------------------------------ MODULE Progs ------------------------------
(***************************************************************************)
(* Replay-vector generation: TLC enumerates the programs of one family     *)
(* (Progs0), evaluates the meaning layer on each and writes ndjson.        *)
(***************************************************************************)
EXTENDS EngineOps, Json, TLCExt, SequencesExt

CONSTANTS MaxW,        \* maximal weight of the generated body
          Shard, NShards,
          OutFile,     \* ndjson file to write
          Family,      \* which constructor/leaf family to enumerate
          WithNoSimp,  \* also predict the pull sequence of the unsimplified tree (C15)
          WithTwin,    \* also run every body on two identical stacks (the periodicity law of C01)
          Light        \* programs only: no meaning, no engine prediction (for checks that need texts)

-----------------------------------------------------------------------------
LightVectors(p) ==
    LET d == Max(1, Eff(p).need) IN
    <<[ast |-> Cat(StreamSrc(d), Cat(Prefix(Family), p)), kind |-> "stream"],
      [ast |-> Cat(SingleSrc(d), Cat(Prefix(Family), p)), kind |-> "single"]>>

Vectors(p) ==
    LET d == Max(1, Eff(p).need)
        sp == Cat(StreamSrc(d), Cat(Prefix(Family), p))
        op == Cat(SingleSrc(d), Cat(Prefix(Family), p))
        rs == Run(sp)
        ro == Run(op)
        es == EngineRun(sp)
        eo == EngineRun(op)
        none == [out |-> <<>>, m |-> [bad |-> TRUE, hard |-> TRUE]]
        ens == IF WithNoSimp THEN EngineRunNoSimp(sp) ELSE none
        eno == IF WithNoSimp THEN EngineRunNoSimp(op) ELSE none
        tp == Cat(TwinSrc(d), Cat(Prefix(Family), p))
        rt == IF WithTwin THEN Run(tp) ELSE [hard |-> TRUE]
        et == IF WithTwin THEN EngineRun(tp) ELSE [out |-> <<>>, m |-> [bad |-> TRUE, hard |-> TRUE]]
    IN (\* two identical inputs: "no construct re-orders work because of stacks it saw earlier" -- where the
        \* outermost construct takes its inputs one at a time, the second half repeats the first
        IF ~WithTwin \/ rt.hard \/ d > 3 THEN <<>>
        ELSE <<[ast |-> tp, den |-> rt.out, lo |-> rt.lo, hi |-> rt.hi, ordered |-> FALSE, kind |-> "twin", posfixed |-> PosFixed(p),
                periodic |-> OneAtATime(p), eng |-> NormOut(et.out), engok |-> ~(et.m.bad \/ et.m.hard)]>>)
       \o
       (IF rs.hard THEN <<>>
        ELSE <<[ast |-> sp, den |-> rs.out, lo |-> rs.lo, hi |-> rs.hi, ordered |-> FALSE,
                kind |-> "stream", posfixed |-> PosFixed(p), eng |-> NormOut(es.out), engok |-> ~(es.m.bad \/ es.m.hard),
                engns |-> NormOut(ens.out), engnsok |-> ~(ens.m.bad \/ ens.m.hard),
                tree |-> TreeOf(sp), stree |-> Simplify(TreeOf(sp))]>>)
       \o
       (IF ro.hard THEN <<>>
        ELSE <<[ast |-> op, den |-> ro.out, lo |-> ro.lo, hi |-> ro.hi,
                ordered |-> OrderFixed(p), kind |-> "single", posfixed |-> PosFixed(p), eng |-> NormOut(eo.out),
                engok |-> ~(eo.m.bad \/ eo.m.hard),
                engns |-> NormOut(eno.out), engnsok |-> ~(eno.m.bad \/ eno.m.hard),
                tree |-> TreeOf(op), stree |-> Simplify(TreeOf(op))]>>)

\* Programs that are not closed / not well-formed: the compiler must reject
\* them (C03); bodies with an undefined stack effect are not generated.
IllFormed(p) == ~WellFormed(Cat(Prefix(Family), p))

MyShare(S) ==
    LET sq == SetToSeq(S) IN
    SelectSeq([j \in 1..Len(sq) |-> [j |-> j, p |-> sq[j]]], LAMBDA r: r.j % NShards = Shard)

GenVectors ==
    LET all == AllPS(Family, MaxW)
        mine == MyShare(all)
        good == SelectSeq(mine, LAMBDA r: BodyOKF(Family, r.p))
        \* family shadow: a read of `length' that no binder covers is the builtin word, not an error -- only
        \* the programs in which every read is covered are generated
        illf == IF Family = "shadow" THEN <<>> ELSE SelectSeq(mine, LAMBDA r: IllFormed(r.p))
        vecs == FlatMap(LAMBDA r: IF Light THEN LightVectors(r.p) ELSE Vectors(r.p), good)
               \o [j \in 1..Len(illf) |-> [ast |-> IF Prefix(Family) = Emp THEN illf[j].p ELSE Cat(Prefix(Family), illf[j].p),
                                             kind |-> "illformed"]]
        BuildErr(p) == BuildQueryNoSimp(Cat(Prefix(Family), p)).err
    IN \* the two notions of a closed, well-scoped program agree: Zw!WellFormed on the AST and the
       \* exceptions of bindings::bind / READ in EngineOps!BuildT on the tree
       /\ Light \/ \A j \in 1..Len(illf) : BuildErr(illf[j].p) \/ (PrintT(<<"WFMISMATCH-ill", illf[j].p>>) /\ FALSE)
       /\ Light \/ \A j \in 1..Len(good) : ~BuildErr(good[j].p) \/ (PrintT(<<"WFMISMATCH-good", good[j].p>>) /\ FALSE)
       /\ ndJsonSerialize(OutFile, vecs)
       /\ PrintT(<<"GEN", "total", Cardinality(all), "mine", Len(mine), "legal", Len(good),
                   "illformed", Len(illf), "vectors", Len(vecs)>>)

ASSUME GenVectors
=============================================================================
