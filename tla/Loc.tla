-------------------------------- MODULE Loc --------------------------------
(***************************************************************************)
(* Location attributes, their elements and operations (atval.cc,           *)
(* value-dw.cc, builtin-dw.cc) and abbreviation units                      *)
(* (builtin-dw-abbrev.cc).                                                 *)
(*                                                                         *)
(* A location attribute is a sequence of elements [lo, hi, ops]; an        *)
(* operation is [atom, args] with the operand class table OpClass:         *)
(*   "none"  no operand       "u" one unsigned     "s" one signed          *)
(*   "addr"  an address       "us" unsigned+signed "uu" two unsigned       *)
(*   "block" a byte block     "nested" a nested expression                 *)
(* Values(op): what `value' yields for the operation, as a sequence of     *)
(* [kind, v] -- the table of locexpr_op_values.                            *)
(***************************************************************************)
EXTENDS Integers, Sequences, FiniteSets, TLC

\* name, class, example operands (small numbers; the generator substitutes boundary values)
OpMenu == <<
    [atom |-> "lit3", cls |-> "none", args |-> <<>>],
    [atom |-> "stack_value", cls |-> "none", args |-> <<>>],
    [atom |-> "constu", cls |-> "u", args |-> <<1>>],
    [atom |-> "plus_uconst", cls |-> "u", args |-> <<2>>],
    [atom |-> "consts", cls |-> "s", args |-> <<-1>>],
    [atom |-> "fbreg", cls |-> "s", args |-> <<-2>>],
    [atom |-> "breg5", cls |-> "s", args |-> <<3>>],
    [atom |-> "addr", cls |-> "addr", args |-> <<4>>],
    [atom |-> "bregx", cls |-> "us", args |-> <<5, -3>>],
    [atom |-> "bit_piece", cls |-> "uu", args |-> <<6, 7>>],
    [atom |-> "implicit_value", cls |-> "block", args |-> <<8>>],
    [atom |-> "entry_value", cls |-> "nested", args |-> <<>>]
>>

\* The complete operand table of the operations (DWARF 4, 7.7.1, and the GNU extensions without
\* DIE-typed operands).  enc: how the operands are stored; cls: what `value' yields; the example
\* operands are different for every operation and fit the smallest encoding.
Op(atom, code, cls, enc, args) == [atom |-> atom, code |-> code, cls |-> cls, enc |-> enc, args |-> args]
NoOperand(atom, code) == Op(atom, code, "none", <<>>, <<>>)
OneU(atom, code, enc) == Op(atom, code, "u", <<enc>>, <<code>>)              \* 3 .. 250: fits one byte
OneS(atom, code, enc) == Op(atom, code, "s", <<enc>>, <<100 - code>>)        \* -150 .. 97: s1 for codes < 0x30
Family(prefix, base, operand) ==
    [i \in 1..32 |-> IF operand THEN OneS(prefix \o ToString(i - 1), base + i - 1, "sleb")
                                ELSE NoOperand(prefix \o ToString(i - 1), base + i - 1)]
OpTable ==
    << Op("addr", 3, "addr", <<"a8">>, <<4>>), NoOperand("deref", 6),
       OneU("const1u", 8, "u1"), OneS("const1s", 9, "s1"), OneU("const2u", 10, "u2"), OneS("const2s", 11, "s2"),
       OneU("const4u", 12, "u4"), OneS("const4s", 13, "s4"), OneU("const8u", 14, "u8"), OneS("const8s", 15, "s8"),
       OneU("constu", 16, "uleb"), OneS("consts", 17, "sleb"),
       NoOperand("dup", 18), NoOperand("drop", 19), NoOperand("over", 20), OneU("pick", 21, "u1"),
       NoOperand("swap", 22), NoOperand("rot", 23), NoOperand("xderef", 24), NoOperand("abs", 25),
       NoOperand("and", 26), NoOperand("div", 27), NoOperand("minus", 28), NoOperand("mod", 29),
       NoOperand("mul", 30), NoOperand("neg", 31), NoOperand("not", 32), NoOperand("or", 33),
       NoOperand("plus", 34), OneU("plus_uconst", 35, "uleb"), NoOperand("shl", 36), NoOperand("shr", 37),
       NoOperand("shra", 38), NoOperand("xor", 39),
       NoOperand("eq", 41), NoOperand("ge", 42), NoOperand("gt", 43), NoOperand("le", 44), NoOperand("lt", 45),
       NoOperand("ne", 46) >>
    \o Family("lit", 48, FALSE) \o Family("reg", 80, FALSE) \o Family("breg", 112, TRUE)
    \o << OneU("regx", 144, "uleb"), OneS("fbreg", 145, "sleb"),
          Op("bregx", 146, "us", <<"uleb", "sleb">>, <<146, -46>>), OneU("piece", 147, "uleb"),
          OneU("deref_size", 148, "u1"), OneU("xderef_size", 149, "u1"), NoOperand("nop", 150),
          NoOperand("push_object_address", 151), NoOperand("form_tls_address", 155),
          NoOperand("call_frame_cfa", 156), Op("bit_piece", 157, "uu", <<"uleb", "uleb">>, <<157, 57>>),
          NoOperand("stack_value", 159), NoOperand("GNU_push_tls_address", 224) >>
    \* DW_OP_GNU_uninit (0xf0) is left out: libdw itself rejects it ("invalid DWARF")

\* Operations whose operands name a DIE, an index into .debug_addr or a nested expression (DWARF 5, 2.5 / 2.6, and
\* the GNU extensions that DWARF 5 standardised).  enc as for OpTable plus "ulebref" / "u4ref" / "u2ref" (the
\* CU-relative offset of a DIE), "refaddr" (a .debug_info offset), "szblock" (a size byte and that many bytes),
\* "nested".  cls, what `value' yields: "u" one number, "uu" two numbers, "die-s" a DIE and a signed number,
\* "die-block" a DIE and a block, "nested" the nested expression.  twin: the operation it was standardised from.
TOp(atom, code, cls, enc, twin) == [atom |-> atom, code |-> code, cls |-> cls, enc |-> enc, twin |-> twin]
TypedOps == <<
    TOp("call2", 152, "u", <<"u2ref">>, "none"), TOp("call4", 153, "u", <<"u4ref">>, "none"),
    TOp("implicit_pointer", 160, "die-s", <<"refaddr", "sleb">>, "GNU_implicit_pointer"),
    TOp("addrx", 161, "u", <<"uleb">>, "GNU_addr_index"), TOp("constx", 162, "u", <<"uleb">>, "GNU_const_index"),
    TOp("entry_value", 163, "nested", <<"nested">>, "GNU_entry_value"),
    TOp("const_type", 164, "die-block", <<"ulebref", "szblock">>, "GNU_const_type"),
    TOp("regval_type", 165, "uu", <<"uleb", "ulebref">>, "GNU_regval_type"),
    TOp("deref_type", 166, "uu", <<"u1", "ulebref">>, "GNU_deref_type"),
    TOp("xderef_type", 167, "uu", <<"u1", "ulebref">>, "none"),
    TOp("convert", 168, "u", <<"ulebref">>, "GNU_convert"), TOp("reinterpret", 169, "u", <<"ulebref">>, "GNU_reinterpret"),
    TOp("GNU_implicit_pointer", 242, "die-s", <<"refaddr", "sleb">>, "none"),
    TOp("GNU_entry_value", 243, "nested", <<"nested">>, "none"),
    TOp("GNU_const_type", 244, "die-block", <<"ulebref", "szblock">>, "none"),
    TOp("GNU_regval_type", 245, "uu", <<"uleb", "ulebref">>, "none"),
    TOp("GNU_deref_type", 246, "uu", <<"u1", "ulebref">>, "none"),
    TOp("GNU_convert", 247, "u", <<"ulebref">>, "none"), TOp("GNU_reinterpret", 249, "u", <<"ulebref">>, "none"),
    TOp("GNU_parameter_ref", 250, "u", <<"u4ref">>, "none"),
    TOp("GNU_addr_index", 251, "u", <<"uleb">>, "none"), TOp("GNU_const_index", 252, "u", <<"uleb">>, "none") >>
TypedOf(atom) == CHOOSE i \in 1..Len(TypedOps) : TypedOps[i].atom = atom

\* MECHANISM: the switch over op->atom in locexpr_op_values (atval.cc), as the branch an operation takes
CONSTANT PinnedOps        \* TRUE: the switch before fix 560f4a6 (self-test)
OpBranch(atom) ==
    CASE atom \in {"call2", "call4", "GNU_convert", "GNU_reinterpret", "GNU_parameter_ref"} -> "one-unsigned"
      [] atom \in {"convert", "reinterpret", "addrx", "constx", "GNU_addr_index", "GNU_const_index"} ->
             IF PinnedOps THEN "nothing" ELSE "one-unsigned"
      [] atom \in {"GNU_regval_type", "GNU_deref_type"} -> "two-unsigned"
      [] atom \in {"regval_type", "deref_type", "xderef_type"} -> IF PinnedOps THEN "nothing" ELSE "two-unsigned"
      [] atom = "GNU_implicit_pointer" -> "die-and-signed"
      [] atom = "implicit_pointer" -> IF PinnedOps THEN "nothing" ELSE "die-and-signed"
      [] atom = "GNU_entry_value" -> "nested"
      [] atom = "entry_value" -> IF PinnedOps THEN "nothing" ELSE "nested"
      [] atom = "GNU_const_type" -> "die-and-block"
      [] atom = "const_type" -> IF PinnedOps THEN "nothing" ELSE "die-and-block"
      [] OTHER -> "nothing"
BranchOfClass(cls) == CASE cls = "u" -> "one-unsigned" [] cls = "uu" -> "two-unsigned" [] cls = "die-s" -> "die-and-signed"
                         [] cls = "die-block" -> "die-and-block" [] cls = "nested" -> "nested"
\* MEANING: every operation reports its operands; a standardised operation reports what its precursor reports
OperandsReported == \A i \in 1..Len(TypedOps) : OpBranch(TypedOps[i].atom) = BranchOfClass(TypedOps[i].cls)
TwinsAgree == \A i \in 1..Len(TypedOps) : TypedOps[i].twin # "none" =>
                 LET t == TypedOps[TypedOf(TypedOps[i].twin)] IN
                 /\ t.cls = TypedOps[i].cls /\ t.enc = TypedOps[i].enc /\ OpBranch(t.atom) = OpBranch(TypedOps[i].atom)

\* Attributes of the classes exprloc / loclistptr (DWARF 4, figure 20; in DWARF 2 and 3: block / loclistptr):
\* whatever form stores them, their value is a location -- one element per address range.
LocAttrs == <<
    [at |-> "location", code |-> 2], [at |-> "string_length", code |-> 25], [at |-> "return_addr", code |-> 42],
    [at |-> "data_member_location", code |-> 56], [at |-> "frame_base", code |-> 64], [at |-> "segment", code |-> 70],
    [at |-> "static_link", code |-> 72], [at |-> "use_location", code |-> 74], [at |-> "vtable_elem_location", code |-> 77],
    [at |-> "data_location", code |-> 80] >>

Values(op) ==
    CASE op.cls = "none" -> <<>>
      [] op.cls = "u" -> <<[kind |-> "dec", v |-> op.args[1]]>>
      [] op.cls = "s" -> <<[kind |-> "dec", v |-> op.args[1]]>>
      [] op.cls = "addr" -> <<[kind |-> "hex", v |-> op.args[1]]>>
      [] op.cls \in {"us", "uu"} -> <<[kind |-> "dec", v |-> op.args[1]], [kind |-> "dec", v |-> op.args[2]]>>
      [] op.cls = "block" -> <<[kind |-> "block", v |-> op.args[1]]>>
      [] op.cls = "nested" -> <<[kind |-> "llelem", v |-> 0]>>

\* expressions of one or two operations, location attributes of one to MaxRanges elements
Exprs == {<<OpMenu[i]>> : i \in 1..Len(OpMenu)} \cup {<<OpMenu[i], OpMenu[j]>> : i \in {1, 3, 5, 8, 9}, j \in 1..Len(OpMenu)}
           \cup {<<>>}

\* laws of the element words over an abstract element e = [lo, hi, ops]
Rev(s) == [i \in 1..Len(s) |-> s[Len(s) + 1 - i]]
ElemOK(ops) ==
    LET elem == [i \in 1..Len(ops) |-> [op |-> ops[i], pos |-> i - 1]]
        relem == [i \in 1..Len(ops) |-> [op |-> Rev(ops)[i], pos |-> i - 1]]
    IN /\ Len(elem) = Len(ops)                                 \* length = number of elem results
       /\ [i \in 1..Len(relem) |-> relem[i].op] = Rev([i \in 1..Len(elem) |-> elem[i].op])
       /\ \A a \in {OpMenu[i].atom : i \in 1..Len(OpMenu)} :
             (\E i \in 1..Len(ops) : ops[i].atom = a) = (\E i \in 1..Len(elem) : elem[i].op.atom = a)   \* ?OP_x
AllElemOK == \A e \in Exprs : ElemOK(e)

-----------------------------------------------------------------------------
(* abbreviation units of a Dwarf: units refer to tables; `abbrev' yields each table once *)

CONSTANTS MutSeen       \* "none" | "binsearch": how the seen list is searched (self-test of the model)

RECURSIVE AbbrevUnits(_, _, _)
\* refs: Seq of table offsets in unit order; seen: Seq; returns the offsets yielded
Found(seen, off) ==
    IF MutSeen = "binsearch"
    THEN \* std::binary_search on a list that is in insertion order, not sorted
         LET RECURSIVE BS(_, _)
             BS(lo, hi) == IF lo >= hi THEN FALSE
                           ELSE LET mid == (lo + hi) \div 2 IN
                                IF seen[mid + 1] = off THEN TRUE
                                ELSE IF seen[mid + 1] < off THEN BS(mid + 1, hi) ELSE BS(lo, mid)
         IN BS(0, Len(seen))
    ELSE \E i \in 1..Len(seen) : seen[i] = off
AbbrevUnits(refs, i, seen) ==
    IF i > Len(refs) THEN <<>>
    ELSE IF Found(seen, refs[i]) THEN AbbrevUnits(refs, i + 1, seen)
    ELSE <<refs[i]>> \o AbbrevUnits(refs, i + 1, Append(seen, refs[i]))

\* MEANING: the distinct tables, in order of first reference
RECURSIVE Distinct(_, _)
Distinct(refs, seenset) ==
    IF Len(refs) = 0 THEN <<>>
    ELSE IF Head(refs) \in seenset THEN Distinct(Tail(refs), seenset)
    ELSE <<Head(refs)>> \o Distinct(Tail(refs), seenset \cup {Head(refs)})

RefLists == UNION {[1..n -> {0, 8, 16}] : n \in 1..4}
AbbrevOnce == \A r \in RefLists : AbbrevUnits(r, 1, <<>>) = Distinct(r, {})
=============================================================================
