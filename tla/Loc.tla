-------------------------------- MODULE Loc --------------------------------
(***************************************************************************)
(* Location attributes, their elements and operations (atval.cc,           *)
(* value-dw.cc, builtin-dw.cc) and abbreviation units                      *)
(* (builtin-dw-abbrev.cc).                                                 *)
(*                                                                         *)
(* A location attribute is a sequence of elements [lo, hi, ops]; an        *)
(* operation is [atom, args] with the operand class table OpClass:         *)
(*   "none"  no operand       "u" one unsigned     "s" one signed          *)
(*   "addr"  an address       "us" unsigned+signed "uu" two unsigned       *)
(*   "block" a byte block     "nested" a nested expression                 *)
(* Values(op): what `value' yields for the operation, as a sequence of     *)
(* [kind, v] -- the table of locexpr_op_values.                            *)
(***************************************************************************)
EXTENDS Integers, Sequences, FiniteSets, TLC

\* name, class, example operands (small numbers; the generator substitutes boundary values)
OpMenu == <<
    [atom |-> "lit3", cls |-> "none", args |-> <<>>],
    [atom |-> "stack_value", cls |-> "none", args |-> <<>>],
    [atom |-> "constu", cls |-> "u", args |-> <<1>>],
    [atom |-> "plus_uconst", cls |-> "u", args |-> <<2>>],
    [atom |-> "consts", cls |-> "s", args |-> <<-1>>],
    [atom |-> "fbreg", cls |-> "s", args |-> <<-2>>],
    [atom |-> "breg5", cls |-> "s", args |-> <<3>>],
    [atom |-> "addr", cls |-> "addr", args |-> <<4>>],
    [atom |-> "bregx", cls |-> "us", args |-> <<5, -3>>],
    [atom |-> "bit_piece", cls |-> "uu", args |-> <<6, 7>>],
    [atom |-> "implicit_value", cls |-> "block", args |-> <<8>>],
    [atom |-> "entry_value", cls |-> "nested", args |-> <<>>]
>>

Values(op) ==
    CASE op.cls = "none" -> <<>>
      [] op.cls = "u" -> <<[kind |-> "dec", v |-> op.args[1]]>>
      [] op.cls = "s" -> <<[kind |-> "dec", v |-> op.args[1]]>>
      [] op.cls = "addr" -> <<[kind |-> "hex", v |-> op.args[1]]>>
      [] op.cls \in {"us", "uu"} -> <<[kind |-> "dec", v |-> op.args[1]], [kind |-> "dec", v |-> op.args[2]]>>
      [] op.cls = "block" -> <<[kind |-> "block", v |-> op.args[1]]>>
      [] op.cls = "nested" -> <<[kind |-> "llelem", v |-> 0]>>

\* expressions of one or two operations, location attributes of one to MaxRanges elements
Exprs == {<<OpMenu[i]>> : i \in 1..Len(OpMenu)} \cup {<<OpMenu[i], OpMenu[j]>> : i \in {1, 3, 5, 8, 9}, j \in 1..Len(OpMenu)}
           \cup {<<>>}

\* laws of the element words over an abstract element e = [lo, hi, ops]
Rev(s) == [i \in 1..Len(s) |-> s[Len(s) + 1 - i]]
ElemOK(ops) ==
    LET elem == [i \in 1..Len(ops) |-> [op |-> ops[i], pos |-> i - 1]]
        relem == [i \in 1..Len(ops) |-> [op |-> Rev(ops)[i], pos |-> i - 1]]
    IN /\ Len(elem) = Len(ops)                                 \* length = number of elem results
       /\ [i \in 1..Len(relem) |-> relem[i].op] = Rev([i \in 1..Len(elem) |-> elem[i].op])
       /\ \A a \in {OpMenu[i].atom : i \in 1..Len(OpMenu)} :
             (\E i \in 1..Len(ops) : ops[i].atom = a) = (\E i \in 1..Len(elem) : elem[i].op.atom = a)   \* ?OP_x
AllElemOK == \A e \in Exprs : ElemOK(e)

-----------------------------------------------------------------------------
(* abbreviation units of a Dwarf: units refer to tables; `abbrev' yields each table once *)

CONSTANTS MutSeen       \* "none" | "binsearch": how the seen list is searched (self-test of the model)

RECURSIVE AbbrevUnits(_, _, _)
\* refs: Seq of table offsets in unit order; seen: Seq; returns the offsets yielded
Found(seen, off) ==
    IF MutSeen = "binsearch"
    THEN \* std::binary_search on a list that is in insertion order, not sorted
         LET RECURSIVE BS(_, _)
             BS(lo, hi) == IF lo >= hi THEN FALSE
                           ELSE LET mid == (lo + hi) \div 2 IN
                                IF seen[mid + 1] = off THEN TRUE
                                ELSE IF seen[mid + 1] < off THEN BS(mid + 1, hi) ELSE BS(lo, mid)
         IN BS(0, Len(seen))
    ELSE \E i \in 1..Len(seen) : seen[i] = off
AbbrevUnits(refs, i, seen) ==
    IF i > Len(refs) THEN <<>>
    ELSE IF Found(seen, refs[i]) THEN AbbrevUnits(refs, i + 1, seen)
    ELSE <<refs[i]>> \o AbbrevUnits(refs, i + 1, Append(seen, refs[i]))

\* MEANING: the distinct tables, in order of first reference
RECURSIVE Distinct(_, _)
Distinct(refs, seenset) ==
    IF Len(refs) = 0 THEN <<>>
    ELSE IF Head(refs) \in seenset THEN Distinct(Tail(refs), seenset)
    ELSE <<Head(refs)>> \o Distinct(Tail(refs), seenset \cup {Head(refs)})

RefLists == UNION {[1..n -> {0, 8, 16}] : n \in 1..4}
AbbrevOnce == \A r \in RefLists : AbbrevUnits(r, 1, <<>>) = Distinct(r, {})
=============================================================================
