--------------------------- MODULE CoverageTrace ---------------------------
(* Validation of a recorded trace of coverage.cc calls (covdrv rand ...)   *)
(* against Coverage.tla: each line must be the corresponding action with   *)
(* the logged resulting vector and return value.                           *)
EXTENDS Integers, Sequences, FiniteSets, TLC, Json, IOUtils

CONSTANTS N, FixedIntersect

TraceLog == ndJsonDeserialize(IOEnv.COVTRACE)

VARIABLES vec, op, arg, prev, ret, l
C == INSTANCE Coverage

ToV(j) == [i \in 1..Len(j) |-> [s |-> j[i][1], l |-> j[i][2]]]
Ev == TraceLog[l]
IsEvent(e) == l <= Len(TraceLog) /\ Ev.e = e /\ l' = l + 1

TInit == C!Init /\ l = 1
TReset == IsEvent("reset") /\ vec' = <<>> /\ op' = "init" /\ arg' = <<0, 0>> /\ prev' = <<>> /\ ret' = FALSE
TAdd == IsEvent("add") /\ C!DoAdd(<<Ev.s, Ev.l>>) /\ vec' = ToV(Ev.vec)
TRemove == IsEvent("remove") /\ C!DoRemove(<<Ev.s, Ev.l>>) /\ vec' = ToV(Ev.vec) /\ ret' = Ev.ret
TCovered == /\ IsEvent("is_covered")
            /\ (Ev.l > 0 => Ev.ret = C!IsCovered(vec, Ev.s, Ev.l))
            /\ vec = ToV(Ev.vec)
            /\ UNCHANGED <<vec, op, arg, prev, ret>>
TIntersect == /\ IsEvent("intersect")
              /\ ToV(Ev.res) = C!Intersect(vec, Ev.s, Ev.l)
              /\ vec = ToV(Ev.vec)
              /\ UNCHANGED <<vec, op, arg, prev, ret>>
TNext == TReset \/ TAdd \/ TRemove \/ TCovered \/ TIntersect
TSpec == TInit /\ [][TNext]_<<vec, op, arg, prev, ret, l>>

CanonicalInv == C!CanonicalInv
RefinesAdd == C!RefinesAdd
RefinesRemove == C!RefinesRemove
=============================================================================
