------------------------------- MODULE Lexer -------------------------------
(***************************************************************************)
(* String literals with embedded programs: "... %( program %) ...".        *)
(*                                                                         *)
(* The text is abstracted to the tokens that matter to the lexer's state   *)
(* machine (lexer.ll, start conditions STRING and STRING_EMBEDDED):        *)
(*    Q  "      PL  %(      PR  %)      L  (      R  )      X  1           *)
(*    N  a newline       BQ  \"  (an escaped quote)                         *)
(*    BSQ  \\"  (an escaped backslash with a quote right after it)           *)
(*    PPL  %%(     PPR  %%)   (an escaped percent sign with a bracket after)  *)
(*                                                                         *)
(* MEANING (doc/syntax.rst, "Formatting strings"): a program is a sequence *)
(* of items; an item is a number, a parenthesised program or a string; a   *)
(* string is a quote, parts, a quote; a part is literal text (anything but *)
(* a quote -- brackets are just characters there) or %( program %).  The   *)
(* language is given by a set-valued recursive descent recogniser.         *)
(*                                                                         *)
(* MECHANISM: the lexer does not parse the embedded program while it scans *)
(* the string.  It copies characters, counting brackets to find the %)     *)
(* that ends the splice: `level' counts ( [ { and nested %( outside of     *)
(* nested string literals, `in_string' is toggled by every quote, %( sets  *)
(* it to false and %) to true.  The collected text is then parsed as a     *)
(* program of its own (parse_subquery), by the same machinery.             *)
(*                                                                         *)
(* The theorem checked by TLC: for every token sequence up to the bound,   *)
(* the mechanism accepts exactly the sequences of the language, and splits *)
(* each accepted string literal into the same parts.                       *)
(* NoReset = TRUE drops the reset of in_string at the %( that opens a      *)
(* splice (self-test; what seeded change C15-b did).                       *)
(***************************************************************************)
EXTENDS Naturals, Sequences, FiniteSets, TLC

CONSTANTS MaxLen, NoReset,
          Pinned,      \* "none"; "dropnl": the catch-all of STRING_EMBEDDED is `.', a newline is not copied (before fix
                       \* 826b041); "nopair": STRING_EMBEDDED knows \" but not \\ (before fix fac838a); "nopct": it does
                       \* not know %% (before fix 95d6edf).  Self-tests.
          SpliceLimit, \* how deep splices may nest (parser.yy: every %( %) is parsed by a parser of its own on the C
                       \* stack, started from inside the lexer of the enclosing one; max_subquery_depth - 1 = 255)
          Tok          \* the alphabet of this run, a subset of {"Q", "PL", "PR", "L", "R", "X", "N", "BQ", "BSQ", "PPL", "PPR"}

-----------------------------------------------------------------------------
(* MEANING: end positions of the derivations starting at position i *)

\* d: the number of splices around position i.  The characters %) are ordinary text in a string
\* literal that is not inside a splice; inside a splice they always end it (the documentation shows
\* nested string literals but says nothing of %) in them: such texts are not in the language).
RECURSIVE PEnds(_, _, _), ItemEnds(_, _, _), PartsEnds(_, _, _)
PEnds(w, i, d) == {i} \cup UNION {PEnds(w, j, d) : j \in ItemEnds(w, i, d)}
ItemEnds(w, i, d) ==
    IF i > Len(w) THEN {}
    ELSE CASE w[i] = "X" -> {i + 1}
           [] w[i] = "N" -> {i + 1}          \* white space between items
           [] w[i] = "L" -> {k + 1 : k \in {k \in PEnds(w, i + 1, d) : k <= Len(w) /\ w[k] = "R"}}
           \* a literal ends at a quote that no backslash escapes: Q, or the quote of BSQ (whose two
           \* backslashes are the last character of the literal)
           [] w[i] = "Q" -> {k + 1 : k \in {k \in PartsEnds(w, i + 1, d) : k <= Len(w) /\ w[k] \in {"Q", "BSQ"}}}
           [] OTHER -> {}                    \* a backslash outside of a literal is not a word of the language
\* parts of a string literal: literal characters (brackets are just characters), or a splice
PartsEnds(w, i, d) ==
    {i} \cup
    (IF i > Len(w) THEN {}
     ELSE CASE w[i] \in {"X", "L", "R", "N", "BQ", "PPL", "PPR"} -> PartsEnds(w, i + 1, d)
            [] w[i] = "PR" -> IF d = 0 THEN PartsEnds(w, i + 1, d) ELSE {}
            [] w[i] = "PL" -> IF d + 1 > SpliceLimit THEN {}        \* nested too deeply: rejected, not a crash
                              ELSE UNION {PartsEnds(w, k + 1, d) : k \in {k \in PEnds(w, i + 1, d + 1) : k <= Len(w) /\ w[k] = "PR"}}
            [] OTHER -> {})
InLanguage(w) == (Len(w) + 1) \in PEnds(w, 1, 0)

-----------------------------------------------------------------------------
(* MECHANISM *)

\* <STRING_EMBEDDED>: returns [ok, end, body] or [ok |-> FALSE, why]
RECURSIVE LexEmb(_, _, _, _, _)
LexEmb(w, i, level, ins, body) ==
    IF i > Len(w) THEN [ok |-> FALSE, why |-> "toofew"]
    ELSE LET t == w[i] IN
    CASE t = "L" -> LexEmb(w, i + 1, IF ins THEN level ELSE level + 1, ins, Append(body, t))
      [] t = "R" -> IF ~ins /\ level = 0 THEN [ok |-> FALSE, why |-> "toomany"]
                    ELSE LexEmb(w, i + 1, IF ins THEN level ELSE level - 1, ins, Append(body, t))
      [] t = "Q" -> LexEmb(w, i + 1, level, ~ins, Append(body, t))
      \* \" : escaped inside a nested literal; elsewhere a backslash and a quote
      [] t = "BQ" -> LexEmb(w, i + 1, level, IF Pinned = "nopair" \/ ins THEN ins ELSE ~ins, Append(body, t))
      \* \\" : inside a nested literal an escaped backslash, elsewhere two backslashes -- and then a quote
      [] t = "BSQ" -> LexEmb(w, i + 1, level, IF Pinned = "nopair" THEN ins ELSE ~ins, Append(body, t))
      [] t = "N" -> LexEmb(w, i + 1, level, ins, IF Pinned = "dropnl" THEN body ELSE Append(body, t))
      \* %%( and %%): inside a nested literal a percent sign and a bracket that is not counted; elsewhere (and
      \* everywhere before the fix) a percent sign and then the delimiter %( resp. %)
      [] t = "PPL" -> IF ins /\ Pinned # "nopct" THEN LexEmb(w, i + 1, level, ins, Append(body, t))
                      ELSE LexEmb(w, i + 1, level + 1, FALSE, Append(body, t))
      [] t = "PPR" -> IF ins /\ Pinned # "nopct" THEN LexEmb(w, i + 1, level, ins, Append(body, t))
                      ELSE IF level = 0 THEN [ok |-> TRUE, end |-> i + 1, body |-> Append(body, "PCT"), ins |-> TRUE]
                      ELSE LexEmb(w, i + 1, level - 1, TRUE, Append(body, t))
      [] t = "PL" -> LexEmb(w, i + 1, level + 1, FALSE, Append(body, t))
      [] t = "PR" -> IF level = 0 THEN [ok |-> TRUE, end |-> i + 1, body |-> body, ins |-> TRUE]
                     ELSE LexEmb(w, i + 1, level - 1, TRUE, Append(body, t))
      [] OTHER -> LexEmb(w, i + 1, level, ins, Append(body, t))

\* <STRING>: from the position after the opening quote; `ins' is the fmtlit's in_string as the
\* previous splice left it.  Returns [ok, end, bodies] or [ok |-> FALSE, why]
RECURSIVE LexStr(_, _, _, _, _)
LexStr(w, i, ins, bodies, parts) ==
    IF i > Len(w) THEN [ok |-> FALSE, why |-> "unterminated"]
    ELSE CASE w[i] = "Q" -> [ok |-> TRUE, end |-> i + 1, bodies |-> bodies, parts |-> parts]
           [] w[i] = "BSQ" -> [ok |-> TRUE, end |-> i + 1, bodies |-> bodies, parts |-> Append(parts, [lit |-> "BS"])]
           [] w[i] = "PL" ->
                LET e == LexEmb(w, i + 1, 0, IF NoReset THEN ins ELSE FALSE, <<>>) IN
                IF e.ok THEN LexStr(w, e.end, e.ins, Append(bodies, e.body), Append(parts, [body |-> e.body])) ELSE e
           [] OTHER -> LexStr(w, i + 1, ins, bodies, Append(parts, [lit |-> w[i]]))

\* the parser over the token stream, strings through the lexer above, splice bodies through
\* parse_subquery (the same parser on the collected text)
\* d: the number of parsers already on the C stack below this one, less one (subquery_depth - 1)
RECURSIVE MEnds(_, _, _), MItemEnds(_, _, _), MAcceptD(_, _)
MEnds(w, i, d) == {i} \cup UNION {MEnds(w, j, d) : j \in MItemEnds(w, i, d)}
MItemEnds(w, i, d) ==
    IF i > Len(w) THEN {}
    ELSE CASE w[i] = "X" -> {i + 1}
           [] w[i] = "N" -> {i + 1}
           [] w[i] = "L" -> {k + 1 : k \in {k \in MEnds(w, i + 1, d) : k <= Len(w) /\ w[k] = "R"}}
           [] w[i] = "Q" -> LET s == LexStr(w, i + 1, FALSE, <<>>, <<>>) IN
                            IF s.ok /\ (Len(s.bodies) > 0 => d + 1 <= SpliceLimit)
                                    /\ (\A b \in 1..Len(s.bodies) : MAcceptD(s.bodies[b], d + 1)) THEN {s.end} ELSE {}
           [] OTHER -> {}
MAcceptD(w, d) == (Len(w) + 1) \in MEnds(w, 1, d)
MAccept(w) == MAcceptD(w, 0)

\* the first lexer-level failure met when the whole text is lexed from the start, if any:
\* "none" | "unterminated" | "toofew" | "toomany"  (the tokeniser runs ahead of the parser)
RECURSIVE LexFail(_, _)
LexFail(w, i) ==
    IF i > Len(w) THEN "none"
    ELSE IF w[i] = "Q" THEN LET s == LexStr(w, i + 1, FALSE, <<>>, <<>>) IN IF s.ok THEN LexFail(w, s.end) ELSE s.why
    ELSE LexFail(w, i + 1)

-----------------------------------------------------------------------------
(* the theorem, over all token sequences up to the bound *)

RECURSIVE Words(_)
Words(n) == IF n = 0 THEN {<<>>} ELSE LET s == Words(n - 1) IN s \cup {Append(w, t) : w \in {x \in s : Len(x) = n - 1}, t \in Tok}
All == Words(MaxLen)
Disagree == {w \in All : MAccept(w) # InLanguage(w)}
MechanismIsTheLanguage == Disagree = {}

\* what the lexer hands to the parser of a splice is the text between %( and the %) that ends it, nothing
\* dropped and nothing added (from any %( of any sequence, whatever surrounds it)
SpliceFaithful(w, i) == LET e == LexEmb(w, i + 1, 0, FALSE, <<>>) IN
                        (e.ok /\ w[e.end - 1] = "PR") => e.body = SubSeq(w, i + 1, e.end - 2)
Unfaithful == {w \in All : \E i \in 1..Len(w) : w[i] = "PL" /\ ~SpliceFaithful(w, i)}
SplicesAreSubtexts == Unfaithful = {}

\* sequences beyond the bound that are worth having: the shortest ones on which the lexer before fix fac838a
\* (Pinned = "nopair") disagrees with the language, and relatives
Witnesses == {<<"Q", "PL", "Q", "BSQ", "Q", "R", "Q", "PR", "Q">>,          \* "%( "\\" ")" %)"
              <<"Q", "PL", "Q", "BSQ", "Q", "L", "Q", "PR", "Q">>,          \* "%( "\\" "(" %)"
              <<"Q", "PL", "Q", "BQ", "BSQ", "Q", "R", "Q", "PR", "Q">>,    \* "%( "\"\\" ")" %)"
              <<"Q", "PL", "Q", "N", "BSQ", "N", "Q", "R", "N", "Q", "PR", "Q">>,
              <<"Q", "PL", "X", "N", "X", "N", "Q", "N", "Q", "PR", "N", "Q">>,
              <<"Q", "PL", "Q", "PPR", "Q", "PR", "Q">>,                    \* "%( "%%)" %)"
              <<"Q", "PL", "Q", "PPL", "Q", "PR", "PPR", "Q">>,             \* "%( "%%(" %) %%)"
              <<"Q", "PL", "Q", "X", "PL", "Q", "PPR", "Q", "PR", "X", "Q", "PR", "Q">>}
WitnessesOK == \A w \in Witnesses : /\ InLanguage(w) = MAccept(w)
                                    /\ (SpliceLimit >= 2 => InLanguage(w))       \* none nests deeper than two splices
                                    /\ \A i \in 1..Len(w) : w[i] = "PL" => SpliceFaithful(w, i)

=============================================================================
