----------------------------- MODULE EngineOps ----------------------------
(***************************************************************************)
(* The pull engine of libzwerg (op.cc, overload.cc, build.cc, scon.hh) as  *)
(* a transition system -- the MECHANISM layer of DESIGN.md 2.1.            *)
(*                                                                         *)
(* BuildT(tree) transcribes build.cc over the parse tree of Tree.tla (the   *)
(* grammar actions and tree::simplify): one node per op/pred/stringer      *)
(* object, with the same upstream/origin/branch links.  The                *)
(* per-execution state buffer `scon` is the function sc: node -> state     *)
(* record, DEAD where no state is constructed.  Nx(n, sc) is op::next      *)
(* of node n, one CASE arm per op class written from op.cc; Con/Des are    *)
(* state_con/state_des.  A behaviour of the specification is: choose a     *)
(* program, construct the state (zw_query_execute), then pull results one  *)
(* at a time (zw_result_next) until nullptr.                               *)
(*                                                                         *)
(* The properties relate the mechanism to the meaning (Zw!Den):            *)
(*   OutWithinDen, DoneMeansAll (C01/C03/C10), OrderWhereFixed (C01),      *)
(*   Lifecycle (C13: get only on live state, con only on dead, all dead    *)
(*   after destruction).                                                   *)
(***************************************************************************)
EXTENDS Progs0, Tree

CONSTANT PinnedMerge    \* TRUE: op_merge as at the pinned commit (m_done never cleared)
\* self-test switch (overridden with <- Yes in a configuration): op_merge clears m_done when its upstream is
\* drained but leaves the branch cursor where it is (what seeded change C01-c does)
MergeNoRewind == FALSE
AltSharesScope == FALSE
Yes == TRUE

-----------------------------------------------------------------------------
(* node table construction *)

NoBn == [map |-> <<>>, cur |-> {}]    \* bindings: name -> bind node, and the names bound in the innermost scope

AddNode(st, node) == [st EXCEPT !.ops = Append(@, node)]
LastId(st) == Len(st.ops)

KnownWords == {"dup", "drop", "swap", "over", "rot", "length", "elem", "relem", "value", "pos", "type", "hex", "dec", "oct", "bin"} \cup ArithWords
PredWords == CmpWords \cup {"?empty", "!empty", "?find", "!find", "?starts", "!starts", "?ends", "!ends"}
InfixOps == {"==", "!=", "<", ">", "<=", ">="}

\* `uv' is the up-value table of the enclosing block (uprefs): the names it has referenced from
\* outside so far, in the order of their ids; `outer' the user names visible from outside the block.
UvId(uv, name) == IF \E i \in 1..Len(uv) : uv[i] = name THEN (CHOOSE i \in 1..Len(uv) : uv[i] = name) - 1 ELSE Len(uv)
UvAdd(uv, name) == IF \E i \in 1..Len(uv) : uv[i] = name THEN uv ELSE Append(uv, name)

\* build_exec / build_pred of build.cc over the parse tree (Tree.tla).  The bindings `bn' are passed by
\* reference in the code: only a SCOPE node gives its child a nested set.  Result: [st, top, bn, uv, err];
\* err: the exceptions of bindings::bind (rebinding in the same scope) and of READ (unbound name).
RECURSIVE BuildT(_, _, _, _, _, _)
RECURSIVE BuildCat(_, _, _, _, _, _, _, _)
RECURSIVE BuildPred(_, _, _, _, _)
RECURSIVE BuildTinesT(_, _, _, _, _, _, _, _, _)
RECURSIVE BuildOrT(_, _, _, _, _, _, _, _)
RECURSIVE BuildFmtT(_, _, _, _, _, _, _, _)
RECURSIVE BuildCaptures(_, _, _, _, _, _)
Res(st, top, bn, uv, err) == [st |-> st, top |-> top, bn |-> bn, uv |-> uv, err |-> err]
\* an op with a sub-chain on its own origin (CAPTURE, SUBX_EVAL, closures, branches, splices)
SubChain(t, st, bn, uv, outer) ==
    LET st1 == AddNode(st, [k |-> "origin"])
        o == LastId(st1)
        r == BuildT(t, o, st1, bn, uv, outer)
    IN [st |-> r.st, origin |-> o, op |-> r.top, bn |-> r.bn, uv |-> r.uv, err |-> r.err]

BuildT(t, up, st, bn, uv, outer) ==
    LET leaf(node) == LET st1 == AddNode(st, node) IN Res(st1, LastId(st1), bn, uv, FALSE) IN
    CASE t.tt = "CAT" -> BuildCat(t.ch, 1, up, st, bn, uv, outer, FALSE)
      [] t.tt = "ALT" ->
            LET st0 == AddNode(st, [k |-> "merge", up |-> up, branches |-> <<>>])
                m == LastId(st0)
                r == BuildTinesT(t.ch, 1, m, st0, bn, <<>>, uv, outer, FALSE)
                fin == [r.st EXCEPT !.ops[m].branches = r.tops]
            IN Res(fin, m, r.bn, r.uv, r.err)
      [] t.tt = "OR" ->
            LET st0 == AddNode(st, [k |-> "or", up |-> up, branches |-> <<>>])
                o == LastId(st0)
                r == BuildOrT(t.ch, 1, st0, bn, <<>>, uv, outer, FALSE)
                fin == [r.st EXCEPT !.ops[o].branches = r.brs]
            IN Res(fin, o, r.bn, r.uv, r.err)
      [] t.tt = "NOP" -> leaf([k |-> "nop", up |-> up])
      [] t.tt = "F_BUILTIN" ->       \* a position assertion: build_pred gives a pred, so op_assert
            LET st1 == AddNode(st, [k |-> "ppos", n |-> t.n])
                st2 == IF t.x[2] = "?" THEN st1 ELSE AddNode(st1, [k |-> "pnot", a |-> LastId(st1)])
                st3 == AddNode(st2, [k |-> "assert", up |-> up, pred |-> LastId(st2)])
            IN Res(st3, LastId(st3), bn, uv, FALSE)
      [] t.tt = "ASSERT" ->
            LET pr == BuildPred(t.ch[1], st, bn, uv, outer)
                st1 == AddNode(pr.st, [k |-> "assert", up |-> up, pred |-> pr.top])
            IN Res(st1, LastId(st1), pr.bn, pr.uv, pr.err)
      [] t.tt = "FORMAT" ->
            LET st1 == AddNode(st, [k |-> "sorigin"])
                so == LastId(st1)
                r == BuildFmtT(t.ch, Len(t.ch), so, st1, bn, uv, outer, FALSE)
                st2 == AddNode(r.st, [k |-> "format", up |-> up, sorigin |-> so, stringer |-> r.top])
            IN Res(st2, LastId(st2), r.bn, r.uv, r.err)
      [] t.tt = "CONST" -> leaf([k |-> "const", up |-> up, v |-> IntV(t.n)])
      [] t.tt = "STR" -> leaf([k |-> "const", up |-> up, v |-> StrV(t.x)])
      [] t.tt = "EMPTY_LIST" -> leaf([k |-> "const", up |-> up, v |-> SeqV(<<>>)])
      [] t.tt = "CAPTURE" ->
            LET s == SubChain(t.ch[1], st, bn, uv, outer)
                st1 == AddNode(s.st, [k |-> "capture", up |-> up, origin |-> s.origin, op |-> s.op])
            IN Res(st1, LastId(st1), s.bn, s.uv, s.err)
      [] t.tt = "SUBX_EVAL" ->
            LET s == SubChain(t.ch[1], st, bn, uv, outer)
                st1 == AddNode(s.st, [k |-> "subx", up |-> up, origin |-> s.origin, op |-> s.op, keep |-> t.n])
            IN Res(st1, LastId(st1), s.bn, s.uv, s.err)
      [] t.tt \in {"CLOSE_STAR", "CLOSE_PLUS"} ->
            LET s == SubChain(t.ch[1], st, bn, uv, outer)
                st1 == AddNode(s.st, [k |-> "closure", up |-> up, origin |-> s.origin, op |-> s.op,
                                      plus |-> (t.tt = "CLOSE_PLUS")])
            IN Res(st1, LastId(st1), s.bn, s.uv, s.err)
      [] t.tt = "SCOPE" ->          \* bindings scope {bn}
            LET r == BuildT(t.ch[1], up, st, [map |-> bn.map, cur |-> {}], uv, outer)
            IN Res(r.st, r.top, bn, r.uv, r.err)
      [] t.tt = "BLOCK" ->
            \* the body against a fresh frame and a fresh up-value table; then the captured values are
            \* pushed, highest id first, and op_lex_closure pops them
            LET st1 == AddNode(st, [k |-> "origin"])
                o == LastId(st1)
                r == BuildT(t.ch[1], o, st1, NoBn, <<>>, outer \cup DOMAIN bn.map)
                caps == BuildCaptures(r.uv, Len(r.uv), up, r.st, bn, uv)
                st2 == AddNode(caps.st, [k |-> "lexclo", up |-> caps.top, n |-> Len(r.uv), origin |-> o, op |-> r.top])
            IN Res(st2, LastId(st2), bn, caps.uv, r.err)
      [] t.tt = "BIND" ->
            LET st1 == AddNode(st, [k |-> "bind", up |-> up])
                id == LastId(st1)
                name == t.x[1]
            IN Res(st1, id, [map |-> (name :> id) @@ bn.map, cur |-> bn.cur \cup {name}], uv, name \in bn.cur)
      [] t.tt = "READ" ->
            LET w == t.x[1] IN
            IF w \in DOMAIN bn.map                 \* a name of this frame: op_read, then op_apply (skip non-closures)
            THEN LET st1 == AddNode(st, [k |-> "read", up |-> up, src |-> bn.map[w]])
                     st2 == AddNode(st1, [k |-> "apply", up |-> LastId(st1), skip |-> TRUE])
                 IN Res(st2, LastId(st2), bn, uv, FALSE)
            ELSE IF w \in outer                    \* an up-value of the enclosing block
            THEN LET st1 == AddNode(st, [k |-> "upread", up |-> up, id |-> UvId(uv, w)])
                     st2 == AddNode(st1, [k |-> "apply", up |-> LastId(st1), skip |-> TRUE])
                 IN Res(st2, LastId(st2), bn, UvAdd(uv, w), FALSE)
            \* builtins: a predicate becomes an assertion, anything else its own op
            ELSE IF w \in PredWords \cup InfixOps
            THEN LET st1 == AddNode(st, [k |-> "pword", w |-> IF w \in InfixOps THEN InfixWord(w) ELSE w])
                     st2 == AddNode(st1, [k |-> "assert", up |-> up, pred |-> LastId(st1)])
                 IN Res(st2, LastId(st2), bn, uv, FALSE)
            ELSE IF w = "apply" THEN leaf([k |-> "apply", up |-> up, skip |-> FALSE])
            ELSE IF w \in KnownWords THEN leaf([k |-> "word", up |-> up, w |-> w])
            ELSE [leaf([k |-> "nop", up |-> up]) EXCEPT !.err = TRUE]      \* Attempt to read an unbound name
      [] t.tt = "IFELSE" ->
            LET c == SubChain(t.ch[1], st, bn, uv, outer)
                th == SubChain(t.ch[2], c.st, c.bn, c.uv, outer)
                el == SubChain(t.ch[3], th.st, th.bn, th.uv, outer)
                st1 == AddNode(el.st, [k |-> "ifelse", up |-> up, co |-> c.origin, cop |-> c.op,
                                       to |-> th.origin, top |-> th.op, eo |-> el.origin, eop |-> el.op])
            IN Res(st1, LastId(st1), el.bn, el.uv, c.err \/ th.err \/ el.err)

BuildCat(ch, j, up, st, bn, uv, outer, err) ==
    IF j > Len(ch) THEN Res(st, up, bn, uv, err)
    ELSE LET r == BuildT(ch[j], up, st, bn, uv, outer)
         IN BuildCat(ch, j + 1, r.top, r.st, r.bn, r.uv, outer, err \/ r.err)

BuildPred(t, st, bn, uv, outer) ==
    CASE t.tt = "PRED_NOT" ->
            LET r == BuildPred(t.ch[1], st, bn, uv, outer)
                st1 == AddNode(r.st, [k |-> "pnot", a |-> r.top])
            IN Res(st1, LastId(st1), r.bn, r.uv, r.err)
      [] t.tt = "PRED_SUBX_ANY" ->
            \* a sub-expression context has a scope of its own (bindings scope {bn}, repair dd9d3fd)
            LET s == SubChain(t.ch[1], st, [map |-> bn.map, cur |-> {}], uv, outer)
                st1 == AddNode(s.st, [k |-> "psubx", origin |-> s.origin, op |-> s.op])
            IN Res(st1, LastId(st1), bn, s.uv, s.err)

\* the captured values of a block, pushed from the highest id down: a name of the enclosing frame is
\* read directly, anything else is an up-value of the enclosing block
BuildCaptures(names, j, up, st, bn, uv) ==
    IF j = 0 THEN [st |-> st, top |-> up, uv |-> uv]
    ELSE IF names[j] \in DOMAIN bn.map
    THEN LET st1 == AddNode(st, [k |-> "read", up |-> up, src |-> bn.map[names[j]]])
         IN BuildCaptures(names, j - 1, LastId(st1), st1, bn, uv)
    ELSE LET st1 == AddNode(st, [k |-> "upread", up |-> up, id |-> UvId(uv, names[j])])
         IN BuildCaptures(names, j - 1, LastId(st1), st1, bn, UvAdd(uv, names[j]))

BuildTinesT(ch, j, m, st, bn, tops, uv, outer, err) ==
    IF j > Len(ch) THEN [st |-> st, tops |-> tops, bn |-> bn, uv |-> uv, err |-> err]
    \* every branch in a scope of its own (bindings scope {bn} in the loop of case ALT, build.cc; before fix 0e4c750
    \* -- AltSharesScope -- the branches were compiled in the enclosing scope one after the other, and what the E of
    \* E? bound, whose parse tree has no SCOPE node, stayed visible behind it)
    ELSE LET t == AddNode(st, [k |-> "tine", merge |-> m, idx |-> j])
             r == BuildT(ch[j], LastId(t), t, IF AltSharesScope THEN bn ELSE [map |-> bn.map, cur |-> {}], uv, outer)
         IN BuildTinesT(ch, j + 1, m, r.st, IF AltSharesScope THEN r.bn ELSE bn, Append(tops, r.top), r.uv, outer, err \/ r.err)

BuildOrT(ch, j, st, bn, brs, uv, outer, err) ==
    IF j > Len(ch) THEN [st |-> st, brs |-> brs, bn |-> bn, uv |-> uv, err |-> err]
    ELSE LET s == SubChain(ch[j], st, bn, uv, outer)
         IN BuildOrT(ch, j + 1, s.st, s.bn, Append(brs, [o |-> s.origin, op |-> s.op]), s.uv, outer, err \/ s.err)

\* stringers are chained from the last part (next to the origin) to the first
BuildFmtT(ch, j, sup, st, bn, uv, outer, err) ==
    IF j = 0 THEN Res(st, sup, bn, uv, err)
    ELSE IF ch[j].tt = "STR"
    THEN LET st1 == AddNode(st, [k |-> "slit", up |-> sup, str |-> ch[j].x])
         IN BuildFmtT(ch, j - 1, LastId(st1), st1, bn, uv, outer, err)
    ELSE \* the embedded expression is a sub-expression context: a scope of its own
         LET s == SubChain(ch[j], st, [map |-> bn.map, cur |-> {}], uv, outer)
             st2 == AddNode(s.st, [k |-> "sop", up |-> sup, origin |-> s.origin, op |-> s.op])
         IN BuildFmtT(ch, j - 1, LastId(st2), st2, bn, s.uv, outer, err \/ s.err)

\* A whole query: origin first, as zw_query_parse does; `simp': with tree::simplify (the default)
BuildQueryT(t) ==
    LET st0 == [ops |-> <<[k |-> "origin"]>>]
        r == BuildT(t, 1, st0, NoBn, <<>>, {})
    IN [ops |-> r.st.ops, root |-> r.top, err |-> r.err]
BuildQuery(p) == BuildQueryT(Simplify(TreeOf(p)))
BuildQueryNoSimp(p) == BuildQueryT(TreeOf(p))

-----------------------------------------------------------------------------
(* the state buffer *)

DEAD == [dead |-> TRUE]
IsDead(s) == "dead" \in DOMAIN s

InitState(node) ==
    CASE node.k \in {"origin", "sorigin"} -> [stk |-> <<>>]
      [] node.k = "word" -> [pend |-> <<>>]
      [] node.k = "merge" -> [file |-> [i \in 1..Len(node.branches) |-> <<>>], idx |-> 1,
                              done |-> FALSE]
      [] node.k = "or" -> [bi |-> 0]
      [] node.k = "subx" -> [stk |-> <<>>]
      [] node.k = "closure" -> [seen |-> {}, stks |-> <<>>, drained |-> TRUE]
      [] node.k = "bind" -> [cur |-> <<>>]
      [] node.k = "format" -> [fpos |-> 0]
      [] node.k = "sop" -> [str |-> <<>>]
      [] node.k = "ifelse" -> [sg |-> 0]
      [] node.k = "apply" -> [sub |-> <<>>]      \* m_substate: <<>> or <<[clo, sc]>>
      [] OTHER -> [none |-> TRUE]

HasState(node) == node.k \in {"origin", "sorigin", "word", "merge", "or", "subx", "closure",
                              "bind", "format", "sop", "ifelse", "apply"}

\* Machine state threaded through the big-step evaluation:
\*   sc: the buffer, bad: a lifecycle violation happened (C13), err: diagnostics
ConOwn(ops, n, m) ==
    IF ~HasState(ops[n]) THEN m
    ELSE IF ~IsDead(m.sc[n]) THEN [m EXCEPT !.bad = TRUE]        \* con over live state
    ELSE [m EXCEPT !.sc[n] = InitState(ops[n])]
DesOwn(ops, n, m) ==
    IF ~HasState(ops[n]) THEN m
    ELSE IF IsDead(m.sc[n]) THEN [m EXCEPT !.bad = TRUE]         \* des of dead state
    ELSE [m EXCEPT !.sc[n] = DEAD]

\* state_con / state_des, op class by op class as in op.cc
RECURSIVE Con(_, _, _)
RECURSIVE Des(_, _, _)
RECURSIVE ConSeq(_, _, _, _)
RECURSIVE DesSeq(_, _, _, _)
ConSeq(ops, ids, j, m) == IF j > Len(ids) THEN m ELSE ConSeq(ops, ids, j + 1, Con(ops, ids[j], m))
DesSeq(ops, ids, j, m) == IF j > Len(ids) THEN m ELSE DesSeq(ops, ids, j + 1, Des(ops, ids[j], m))
Con(ops, n, m) ==
    LET node == ops[n] IN
    CASE node.k \in {"origin", "sorigin"} -> ConOwn(ops, n, m)
      [] node.k \in {"nop", "const", "assert", "read", "upread", "lexclo"} -> Con(ops, node.up, m)
      [] node.k = "apply" -> Con(ops, node.up, ConOwn(ops, n, m))
      [] node.k = "word" -> Con(ops, node.up, ConOwn(ops, n, m))
      [] node.k = "tine" -> m           \* op_tine has no state_con: the merge owns the chain
      [] node.k = "merge" ->
            Con(ops, node.up, ConSeq(ops, node.branches, 1, ConOwn(ops, n, m)))
      [] node.k = "or" ->
            Con(ops, node.up, ConSeq(ops, [i \in 1..Len(node.branches) |-> node.branches[i].op], 1, ConOwn(ops, n, m)))
      [] node.k = "capture" -> Con(ops, node.up, Con(ops, node.op, m))
      [] node.k \in {"subx", "closure"} ->
            Con(ops, node.up, Con(ops, node.op, ConOwn(ops, n, m)))
      [] node.k = "bind" -> Con(ops, node.up, ConOwn(ops, n, m))
      [] node.k = "format" -> Con(ops, node.up, Con(ops, node.stringer, ConOwn(ops, n, m)))
      [] node.k = "slit" -> Con(ops, node.up, m)
      [] node.k = "sop" -> Con(ops, node.up, Con(ops, node.op, ConOwn(ops, n, m)))
      [] node.k = "ifelse" -> Con(ops, node.up, ConOwn(ops, n, m))
Des(ops, n, m) ==
    LET node == ops[n] IN
    CASE node.k \in {"origin", "sorigin"} -> DesOwn(ops, n, m)
      [] node.k \in {"nop", "const", "assert", "read", "upread", "lexclo"} -> Des(ops, node.up, m)
      [] node.k = "apply" ->
            \* a still engaged substate is destroyed with the state: ~substate destroys the
            \* rendezvous, then its scon_guard runs state_des of the body on the private buffer
            LET m1 == Des(ops, node.up, m)
                m2 == IF IsDead(m1.sc[n]) \/ Len(m1.sc[n].sub) = 0 THEN m1
                      ELSE LET sub == m1.sc[n].sub[1]
                               d == Des(ops, sub.clo.b.op, [m1 EXCEPT !.sc = sub.sc])
                           IN [d EXCEPT !.sc = m1.sc,
                                        !.bad = d.bad \/ (\E i \in DOMAIN d.sc : ~IsDead(d.sc[i]))]
            IN DesOwn(ops, n, m2)
      [] node.k = "word" -> DesOwn(ops, n, Des(ops, node.up, m))
      [] node.k = "tine" -> m
      [] node.k = "merge" ->
            DesOwn(ops, n, DesSeq(ops, node.branches, 1, Des(ops, node.up, m)))
      [] node.k = "or" ->
            DesOwn(ops, n, DesSeq(ops, [i \in 1..Len(node.branches) |-> node.branches[i].op], 1, Des(ops, node.up, m)))
      [] node.k = "capture" -> Des(ops, node.op, Des(ops, node.up, m))
      [] node.k \in {"subx", "closure"} ->
            DesOwn(ops, n, Des(ops, node.op, Des(ops, node.up, m)))
      [] node.k = "bind" -> DesOwn(ops, n, Des(ops, node.up, m))
      [] node.k = "format" -> DesOwn(ops, n, Des(ops, node.stringer, Des(ops, node.up, m)))
      [] node.k = "slit" -> Des(ops, node.up, m)
      [] node.k = "sop" -> DesOwn(ops, n, Des(ops, node.op, Des(ops, node.up, m)))
      [] node.k = "ifelse" ->
            \* a still engaged then/else guard is destroyed with the state
            LET m0 == IF IsDead(m.sc[n]) THEN m
                      ELSE IF m.sc[n].sg = 1 THEN Des(ops, node.top, m)
                      ELSE IF m.sc[n].sg = 2 THEN Des(ops, node.eop, m) ELSE m
            IN DesOwn(ops, n, Des(ops, node.up, m0))

\* sc.get<state>: reading a state that is not constructed is a C13 violation
Get(m, n) == m.sc[n]
Touch(m, n) == IF IsDead(m.sc[n]) THEN [m EXCEPT !.bad = TRUE] ELSE m

SetNext(m, o, stk) ==      \* op_origin::set_next
    IF IsDead(m.sc[o]) THEN [m EXCEPT !.bad = TRUE] ELSE [m EXCEPT !.sc[o].stk = <<stk>>]

-----------------------------------------------------------------------------
(* op::next, pred::result, stringer::next *)

Ret(res, m) == [res |-> res, m |-> m]      \* res: <<>> (nullptr) or <<stack>>
Null(m) == Ret(<<>>, m)
IsNull(r) == Len(r.res) = 0
Stk(r) == r.res[1]

RECURSIVE Nx(_, _, _)
RECURSIVE Pred(_, _, _, _)
RECURSIVE StrNx(_, _, _)
RECURSIVE CaptureLoop(_, _, _, _)
RECURSIVE OrTry(_, _, _, _, _)

\* pred::result -> [r: "yes"/"no"/"fail", m]
PNot(r) == CASE r = "yes" -> "no" [] r = "no" -> "yes" [] OTHER -> "fail"
Pred(ops, n, m, stk) ==
    LET node == ops[n] IN
    CASE node.k = "pword" ->
            LET wr == Word(node.w, stk) IN
            IF wr.hard THEN [r |-> "fail", m |-> [m EXCEPT !.hard = TRUE]]
            ELSE IF wr.err > 0 THEN [r |-> "fail", m |-> [m EXCEPT !.err = @ + wr.err]]
            ELSE [r |-> IF Len(wr.out) > 0 THEN "yes" ELSE "no", m |-> m]
      [] node.k = "ppos" ->
            IF Depth(stk) = 0 THEN [r |-> "fail", m |-> [m EXCEPT !.hard = TRUE]]
            ELSE [r |-> IF Top(stk).pos = node.n THEN "yes" ELSE "no", m |-> m]
      [] node.k = "pnot" ->
            LET x == Pred(ops, node.a, m, stk) IN [r |-> PNot(x.r), m |-> x.m]
      [] node.k = "psubx" ->
            \* scon_guard sg {sc, *m_op}; set_next; one pull; guard destroyed
            LET m1 == Con(ops, node.op, m)
                m2 == SetNext(m1, node.origin, stk)
                x == Nx(ops, node.op, m2)
                m3 == Des(ops, node.op, x.m)
            IN [r |-> IF IsNull(x) THEN "no" ELSE "yes", m |-> m3]

\* op_capture: drain the body into a sequence
CaptureLoop(ops, node, m, acc) ==
    LET x == Nx(ops, node.op, m) IN
    IF IsNull(x) THEN [vals |-> acc, m |-> x.m]
    ELSE IF Depth(Stk(x)) = 0 THEN [vals |-> acc, m |-> [x.m EXCEPT !.hard = TRUE]]
    ELSE CaptureLoop(ops, node, x.m, Append(acc, Top(Stk(x))))

\* op_or: the for loop over branches after a new upstream stack
OrTry(ops, n, m, stk, bi) ==
    LET node == ops[n] IN
    IF bi > Len(node.branches) THEN Ret(<<>>, [m EXCEPT !.sc[n].bi = 0])    \* it == end ()
    ELSE LET m1 == SetNext([m EXCEPT !.sc[n].bi = bi], node.branches[bi].o, stk)
             x == Nx(ops, node.branches[bi].op, m1)
         IN IF ~IsNull(x) THEN x ELSE OrTry(ops, n, x.m, stk, bi + 1)

Nx(ops, n, m0) ==
    LET node == ops[n] IN
    IF m0.hard \/ m0.fuel = 0 THEN Null([m0 EXCEPT !.hard = TRUE]) ELSE
    LET m == [m0 EXCEPT !.fuel = @ - 1] IN
    CASE node.k = "origin" ->
            LET mt == Touch(m, n) IN
            IF mt.bad THEN Null(mt)
            ELSE Ret(mt.sc[n].stk, [mt EXCEPT !.sc[n].stk = <<>>])
      [] node.k = "nop" -> Nx(ops, node.up, m)
      [] node.k = "const" ->
            LET x == Nx(ops, node.up, m) IN
            IF IsNull(x) THEN x ELSE Ret(<<Push(Stk(x), node.v)>>, x.m)
      [] node.k = "read" ->
            LET x == Nx(ops, node.up, m) IN
            IF IsNull(x) THEN x
            ELSE LET mt == Touch(x.m, node.src) IN
                 IF mt.bad \/ Len(mt.sc[node.src].cur) = 0
                 THEN Null([mt EXCEPT !.bad = TRUE])     \* read of a name never bound
                 ELSE Ret(<<Push(Stk(x), mt.sc[node.src].cur[1])>>, mt)
      [] node.k = "upread" ->
            \* the rendezvous of the buffer this chain runs in names the closure being applied
            IF Len(m.rdv) = 0 THEN Null([m EXCEPT !.bad = TRUE])
            ELSE LET x == Nx(ops, node.up, m) IN
                 IF IsNull(x) THEN x
                 ELSE IF node.id + 1 > Len(m.rdv[1].e) THEN Null([x.m EXCEPT !.bad = TRUE])
                 ELSE Ret(<<Push(Stk(x), m.rdv[1].e[node.id + 1])>>, x.m)
      [] node.k = "lexclo" ->
            LET x == Nx(ops, node.up, m) IN
            IF IsNull(x) THEN x
            ELSE IF Depth(Stk(x)) < node.n THEN Null([x.m EXCEPT !.hard = TRUE])
            ELSE LET s == Stk(x)
                     d == Depth(s)
                     env == [i \in 1..node.n |-> s[d - i + 1]]     \* popped top first: env[1] is id 0
                 IN Ret(<<Push(SubSeq(s, 1, d - node.n),
                               [t |-> "c", b |-> [o |-> node.origin, op |-> node.op], e |-> env, pos |-> 0])>>,
                        x.m)
      [] node.k = "apply" ->
            LET mt == Touch(m, n) IN
            IF mt.bad THEN Null(mt)
            ELSE IF Len(mt.sc[n].sub) = 0
            THEN LET x == Nx(ops, node.up, mt) IN
                 IF IsNull(x) THEN x
                 ELSE IF Depth(Stk(x)) = 0 THEN Null([x.m EXCEPT !.hard = TRUE])
                 ELSE IF Top(Stk(x)).t # "c"
                 THEN (IF node.skip THEN x ELSE Nx(ops, n, [x.m EXCEPT !.err = @ + 1]))
                 ELSE \* substate ctor: private scon over the closure's layout, state_con of the body,
                      \* rendezvous constructed, the rest of the stack handed to the body's origin
                      LET clo == Top(Stk(x))
                          i0 == [x.m EXCEPT !.sc = [i \in DOMAIN x.m.sc |-> DEAD], !.rdv = <<>>]
                          i1 == Con(ops, clo.b.op, i0)
                          i2 == SetNext([i1 EXCEPT !.rdv = <<clo>>], clo.b.o, Pop1(Stk(x)))
                          m1 == [i2 EXCEPT !.sc = [x.m.sc EXCEPT ![n].sub = <<[clo |-> clo, sc |-> i2.sc]>>],
                                           !.rdv = x.m.rdv]
                      IN Nx(ops, n, m1)
            ELSE LET sub == mt.sc[n].sub[1]
                     y == Nx(ops, sub.clo.b.op, [mt EXCEPT !.sc = sub.sc, !.rdv = <<sub.clo>>])
                 IN IF ~IsNull(y)
                    THEN Ret(y.res, [y.m EXCEPT !.sc = [mt.sc EXCEPT ![n].sub = <<[clo |-> sub.clo, sc |-> y.m.sc]>>],
                                                !.rdv = mt.rdv])
                    ELSE \* m_substate = nullptr
                         LET d == Des(ops, sub.clo.b.op, y.m)
                             leak == \E i \in DOMAIN d.sc : ~IsDead(d.sc[i])
                         IN Nx(ops, n, [d EXCEPT !.sc = [mt.sc EXCEPT ![n].sub = <<>>], !.rdv = mt.rdv,
                                                 !.bad = d.bad \/ leak])
      [] node.k = "bind" ->
            LET x == Nx(ops, node.up, Touch(m, n)) IN
            IF IsNull(x) THEN x
            ELSE IF Depth(Stk(x)) = 0 THEN Null([x.m EXCEPT !.hard = TRUE])
            ELSE Ret(<<Pop1(Stk(x))>>, [x.m EXCEPT !.sc[n].cur = <<Top(Stk(x))>>])
      [] node.k = "word" ->
            \* overload_op / op_yielding_overload: pending results first
            LET mt == Touch(m, n) IN
            IF mt.bad THEN Null(mt)
            ELSE IF Len(mt.sc[n].pend) > 0
            THEN Ret(<<Head(mt.sc[n].pend)>>, [mt EXCEPT !.sc[n].pend = Tail(@)])
            ELSE LET x == Nx(ops, node.up, mt) IN
                 IF IsNull(x) THEN x
                 ELSE LET wr == Word(node.w, Stk(x)) IN
                      IF wr.hard THEN Null([x.m EXCEPT !.hard = TRUE])
                      ELSE IF Len(wr.out) = 0
                      THEN Nx(ops, n, [x.m EXCEPT !.err = @ + wr.err])     \* while (true)
                      ELSE Ret(<<Head(wr.out)>>, [x.m EXCEPT !.sc[n].pend = Tail(wr.out)])
      [] node.k = "assert" ->
            LET x == Nx(ops, node.up, m) IN
            IF IsNull(x) THEN x
            ELSE LET pr == Pred(ops, node.pred, x.m, Stk(x)) IN
                 IF pr.r = "yes" THEN Ret(x.res, pr.m) ELSE Nx(ops, n, pr.m)
      [] node.k = "tine" ->
            LET mn == ops[node.merge]
                mt == Touch(m, node.merge)
                st == mt.sc[node.merge]
            IN IF mt.bad THEN Null(mt)
               ELSE IF st.done THEN Null(mt)
               ELSE IF \A i \in 1..Len(st.file) : Len(st.file[i]) = 0
               THEN LET x == Nx(ops, mn.up, mt) IN
                    IF IsNull(x) THEN Null([x.m EXCEPT !.sc[node.merge].done = TRUE])
                    ELSE LET filled == [i \in 1..Len(st.file) |-> x.res] IN
                         Ret(filled[node.idx],
                             [x.m EXCEPT !.sc[node.merge].file =
                                 [filled EXCEPT ![node.idx] = <<>>]])
               ELSE Ret(st.file[node.idx], [mt EXCEPT !.sc[node.merge].file[node.idx] = <<>>])
      [] node.k = "merge" ->
            LET mt == Touch(m, n) IN
            IF mt.bad THEN Null(mt)
            ELSE IF mt.sc[n].done
            THEN (IF PinnedMerge THEN Null(mt)
                  ELSE Null([mt EXCEPT !.sc[n].done = FALSE, !.sc[n].idx = IF MergeNoRewind THEN @ ELSE 1]))
            ELSE LET x == Nx(ops, node.branches[mt.sc[n].idx], mt) IN
                 IF ~IsNull(x) THEN x
                 ELSE IF x.m.sc[n].done
                 THEN (IF PinnedMerge THEN Null(x.m)
                       ELSE Null([x.m EXCEPT !.sc[n].done = FALSE, !.sc[n].idx = IF MergeNoRewind THEN @ ELSE 1]))
                 ELSE Nx(ops, n, [x.m EXCEPT !.sc[n].idx =
                                     IF @ = Len(node.branches) THEN 1 ELSE @ + 1])
      [] node.k = "or" ->
            LET mt == Touch(m, n) IN
            IF mt.bad THEN Null(mt)
            ELSE IF mt.sc[n].bi = 0
            THEN LET x == Nx(ops, node.up, mt) IN
                 IF IsNull(x) THEN x
                 ELSE LET y == OrTry(ops, n, x.m, Stk(x), 1) IN
                      IF ~IsNull(y) THEN y ELSE Nx(ops, n, y.m)
            ELSE LET y == Nx(ops, node.branches[mt.sc[n].bi].op, mt) IN
                 IF ~IsNull(y) THEN y
                 ELSE Nx(ops, n, [y.m EXCEPT !.sc[n] = InitState(node)])    \* sc.reset
      [] node.k = "capture" ->
            LET x == Nx(ops, node.up, m) IN
            IF IsNull(x) THEN x
            ELSE LET m1 == SetNext(x.m, node.origin, Stk(x))
                     c == CaptureLoop(ops, node, m1, <<>>)
                     m2 == Con(ops, node.op, Des(ops, node.op, c.m))
                 IN Ret(<<Push(Stk(x), SeqV(c.vals))>>, m2)
      [] node.k = "subx" ->
            LET mt == Touch(m, n) IN
            IF mt.bad THEN Null(mt)
            ELSE IF Len(mt.sc[n].stk) = 0
            THEN LET x == Nx(ops, node.up, mt) IN
                 IF IsNull(x) THEN x
                 ELSE Nx(ops, n, SetNext([x.m EXCEPT !.sc[n].stk = x.res], node.origin, Stk(x)))
            ELSE LET y == Nx(ops, node.op, mt) IN
                 IF IsNull(y) THEN Nx(ops, n, [y.m EXCEPT !.sc[n].stk = <<>>])
                 ELSE IF Depth(Stk(y)) < node.keep THEN Null([y.m EXCEPT !.hard = TRUE])
                 ELSE LET base == y.m.sc[n].stk[1]
                          kept == SubSeq(Stk(y), Depth(Stk(y)) - node.keep + 1, Depth(Stk(y)))
                      IN Ret(<<base \o kept>>, y.m)
      [] node.k = "closure" ->
            LET mt == Touch(m, n)
                st == mt.sc[n]
            IN IF mt.bad THEN Null(mt)
            ELSE IF ~st.drained
            THEN \* next_from_op
                 LET y == Nx(ops, node.op, mt) IN
                 IF IsNull(y) THEN Nx(ops, n, [y.m EXCEPT !.sc[n].drained = TRUE])
                 ELSE \* yield_and_cache
                      IF StripStk(Stk(y)) \in y.m.sc[n].seen THEN Nx(ops, n, y.m)
                      ELSE Ret(y.res, [y.m EXCEPT !.sc[n].seen = @ \cup {StripStk(Stk(y))},
                                                  !.sc[n].stks = Append(@, Stk(y))])
            ELSE IF Len(st.stks) > 0
            THEN \* send_to_op: the most recently cached stack
                 LET s == st.stks[Len(st.stks)]
                     m1 == SetNext([mt EXCEPT !.sc[n].stks = SubSeq(@, 1, Len(@) - 1),
                                              !.sc[n].drained = FALSE], node.origin, s)
                 IN Nx(ops, n, m1)
            ELSE \* work list empty: next_from_upstream clears the seen set
                 LET x == Nx(ops, node.up, [mt EXCEPT !.sc[n].seen = {}]) IN
                 IF IsNull(x) THEN x
                 ELSE IF node.plus
                 THEN Nx(ops, n, SetNext([x.m EXCEPT !.sc[n].drained = FALSE], node.origin, Stk(x)))
                 ELSE Ret(x.res, [x.m EXCEPT !.sc[n].seen = {StripStk(Stk(x))},
                                             !.sc[n].stks = <<Stk(x)>>])
      [] node.k = "ifelse" ->
            LET mt == Touch(m, n) IN
            IF mt.bad THEN Null(mt)
            ELSE IF mt.sc[n].sg = 0
            THEN LET x == Nx(ops, node.up, mt) IN
                 IF IsNull(x) THEN x
                 ELSE LET m1 == SetNext(Con(ops, node.cop, x.m), node.co, Stk(x))
                          c == Nx(ops, node.cop, m1)
                          m2 == Des(ops, node.cop, c.m)
                      IN IF ~IsNull(c)
                         THEN Nx(ops, n, SetNext(Con(ops, node.top, [m2 EXCEPT !.sc[n].sg = 1]),
                                                 node.to, Stk(x)))
                         ELSE Nx(ops, n, SetNext(Con(ops, node.eop, [m2 EXCEPT !.sc[n].sg = 2]),
                                                 node.eo, Stk(x)))
            ELSE LET body == IF mt.sc[n].sg = 1 THEN node.top ELSE node.eop
                     y == Nx(ops, body, mt)
                 IN IF ~IsNull(y) THEN y
                    ELSE Nx(ops, n, [Des(ops, body, y.m) EXCEPT !.sc[n].sg = 0])
      [] node.k = "format" ->
            LET mt == Touch(m, n) IN
            IF mt.bad THEN Null(mt)
            ELSE LET s == StrNx(ops, node.stringer, mt) IN
                 IF Len(s.res) > 0
                 THEN Ret(<<Push(s.res[1].stk, WithPos(StrV(s.res[1].str), s.m.sc[n].fpos))>>,
                          [s.m EXCEPT !.sc[n].fpos = @ + 1])
                 ELSE LET x == Nx(ops, node.up, s.m) IN
                      IF IsNull(x) THEN x
                      ELSE LET m1 == [x.m EXCEPT !.sc[n] = InitState(node)]        \* sc.reset
                               m2 == IF IsDead(m1.sc[node.sorigin]) THEN [m1 EXCEPT !.bad = TRUE]
                                     ELSE [m1 EXCEPT !.sc[node.sorigin].stk = x.res]
                           IN Nx(ops, n, m2)

\* stringer::next -> res: <<>> or <<[stk, str]>>
StrNx(ops, n, m0) ==
    LET node == ops[n] IN
    IF m0.hard \/ m0.fuel = 0 THEN Ret(<<>>, [m0 EXCEPT !.hard = TRUE]) ELSE
    LET m == [m0 EXCEPT !.fuel = @ - 1] IN
    CASE node.k = "sorigin" ->
            LET mt == Touch(m, n) IN
            IF mt.bad \/ Len(mt.sc[n].stk) = 0 THEN Ret(<<>>, mt)
            ELSE Ret(<<[stk |-> mt.sc[n].stk[1], str |-> <<>>]>>, [mt EXCEPT !.sc[n].stk = <<>>])
      [] node.k = "slit" ->
            LET u == StrNx(ops, node.up, m) IN
            IF Len(u.res) = 0 THEN u
            ELSE Ret(<<[u.res[1] EXCEPT !.str = node.str \o @]>>, u.m)
      [] node.k = "sop" ->
            LET mt == Touch(m, n) IN
            IF mt.bad THEN Ret(<<>>, mt)
            ELSE IF Len(mt.sc[n].str) = 0
            THEN LET u == StrNx(ops, node.up, mt) IN
                 IF Len(u.res) = 0 THEN u
                 ELSE StrNx(ops, n, SetNext([u.m EXCEPT !.sc[n].str = <<u.res[1].str>>],
                                            node.origin, u.res[1].stk))
            ELSE LET y == Nx(ops, node.op, mt) IN
                 IF IsNull(y) THEN StrNx(ops, n, [y.m EXCEPT !.sc[n].str = <<>>])
                 ELSE IF Depth(Stk(y)) = 0 THEN Ret(<<>>, [y.m EXCEPT !.hard = TRUE])
                 ELSE Ret(<<[stk |-> Pop1(Stk(y)),
                            str |-> Show(Top(Stk(y))) \o y.m.sc[n].str[1]]>>, y.m)

-----------------------------------------------------------------------------
(* a whole execution, big-step: used to predict the exact pull sequence     *)

Fuel == 4000

FreshMach(qq) ==
    LET dead == [i \in 1..Len(qq.ops) |-> DEAD]
        m0 == [sc |-> dead, bad |-> FALSE, hard |-> FALSE, err |-> 0, fuel |-> Fuel, rdv |-> <<>>]
        m1 == Con(qq.ops, qq.root, m0)              \* scon_guard in zw_result
    IN SetNext(m1, 1, <<>>)                         \* origin.set_next (empty input stack)

RECURSIVE PullAll(_, _, _)
PullAll(qq, m, acc) ==
    LET x == Nx(qq.ops, qq.root, [m EXCEPT !.fuel = Fuel]) IN
    IF IsNull(x) THEN [out |-> acc, m |-> x.m] ELSE PullAll(qq, x.m, Append(acc, Stk(x)))

\* Closures are opaque in what a query yields: the meaning layer keeps the body's AST and the whole
\* environment, the mechanism the compiled body and the captured values.  Compare them by position only.
RECURSIVE NormV(_)
NormV(v) == IF v.t = "c" THEN [t |-> "c", pos |-> v.pos]
            ELSE IF v.t = "q" THEN [v EXCEPT !.q = [i \in 1..Len(v.q) |-> NormV(v.q[i])]]
            ELSE v
NormStk(s) == [i \in 1..Len(s) |-> NormV(s[i])]
NormOut(o) == [i \in 1..Len(o) |-> NormStk(o[i])]

EngineRun(p) == LET qq == BuildQuery(p) IN PullAll(qq, FreshMach(qq), <<>>)
EngineRunNoSimp(p) == LET qq == BuildQueryNoSimp(p) IN PullAll(qq, FreshMach(qq), <<>>)

=============================================================================
