------------------------------- MODULE Int64 -------------------------------
EXTENDS Int

VARIABLES
    \* @type: $num;
    xa,
    \* @type: $num;
    xb

CInit == /\ TwoW = 18446744073709551616 /\ HalfW = 9223372036854775808
         /\ PinnedNeg = FALSE /\ PinnedMod = FALSE

Init == /\ xa \in [u: 0..18446744073709551615, sg: BOOLEAN]
        /\ xb \in [u: 0..18446744073709551615, sg: BOOLEAN]
Next == UNCHANGED <<xa, xb>>

InvAdd == AddExact(xa, xb)
InvSub == SubExact(xa, xb)
InvNeg == NegExact(xa)
InvLess == LessExact(xa, xb)
InvMul == MulExact(xa, xb)
InvDiv == DivExact(xa, xb)
InvMod == ModExact(xa, xb)
=============================================================================
