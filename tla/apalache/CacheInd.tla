------------------------------ MODULE CacheInd ------------------------------
(***************************************************************************)
(* The cache model of tla/Cache.tla with type annotations, for Apalache:   *)
(* HistoryIndependent is shown for histories of ANY length over the given  *)
(* shape by an inductive invariant                                         *)
(*      IndInit => IndInv                 (length 0)                       *)
(*      IndInv /\ Next => IndInv'         (length 1, init = IndInv)        *)
(*      IndInv => HistoryIndependent                                       *)
(* TLC (Cache.tla) explores histories up to MaxOps; this removes the bound.*)
(* The tree of every unit is Shape (parent of DIE d, 0 for the root).      *)
(***************************************************************************)
EXTENDS Integers, Sequences, FiniteSets

CONSTANTS
    \* @type: Int;
    NUnits

\* @type: Seq(Int);
Shape == <<0, 1, 2, 1>>
Dies == 1..4
Units == {u \in 1..4 : u <= NUnits}      \* (Apalache wants constant ranges)

VARIABLES
    \* @type: Seq(Set(<<Int, Int>>));
    roots,
    \* @type: Int -> Seq(Int -> Int);
    par,
    \* @type: Seq({ op: Str, u: Int, d: Int, a: Int });
    last

CInit == NUnits \in 1..4

\* @type: Set(<<Int, Int>>);
AllRoots == {<<v, 1>> : v \in Units}
\* @type: Int -> Int;
FullTable == [x \in Dies |-> Shape[x]]

Init == roots = <<>> /\ par = [u \in Units |-> <<>>] /\ last = <<>>

AskRoot(u, d) ==
    /\ roots' = IF roots = <<>> THEN <<AllRoots>> ELSE roots
    /\ last' = <<[op |-> "root", u |-> u, d |-> d, a |-> IF <<u, d>> \in roots'[1] THEN 1 ELSE 0]>>
    /\ UNCHANGED par

AskParent(u, d) ==
    /\ par' = IF par[u] = <<>> THEN [par EXCEPT ![u] = <<FullTable>>] ELSE par
    /\ last' = <<[op |-> "parent", u |-> u, d |-> d, a |-> par'[u][1][d]]>>
    /\ UNCHANGED roots

Next == \E u \in Units, d \in Dies : AskRoot(u, d) \/ AskParent(u, d)

\* the answer a fresh process gives
\* @type: ({ op: Str, u: Int, d: Int, a: Int }) => Int;
Meaning(r) == IF r.op = "root" THEN (IF r.d = 1 THEN 1 ELSE 0) ELSE Shape[r.d]

HistoryIndependent == last /= <<>> => last[1].a = Meaning(last[1])

\* the inductive invariant: a cache is empty or complete, never partial; the last answer is the fresh one
\* @type: Set({ op: Str, u: Int, d: Int, a: Int });
GoodAnswers == {[op |-> o, u |-> u, d |-> d, a |-> IF o = "root" THEN (IF d = 1 THEN 1 ELSE 0) ELSE Shape[d]] :
                   o \in {"root", "parent"}, u \in Units, d \in Dies}
IndInv ==
    /\ roots \in {<<>>, <<AllRoots>>}
    /\ par \in [Units -> {<<>>, <<FullTable>>}]
    /\ last \in {<<>>} \cup {<<r>> : r \in GoodAnswers}
=============================================================================
