------------------------------ MODULE Progs0 -----------------------------
(***************************************************************************)
(* Enumeration of Zwerg programs by weight (leaves and unary constructs    *)
(* weigh 1, binary/ternary constructs weigh nothing beyond their           *)
(* operands), the order-is-documented predicate, and the replay vectors    *)
(* that bind the meaning layer (Zw!Den) to the implementation.             *)
(***************************************************************************)
EXTENDS Zw

-----------------------------------------------------------------------------
(* leaf macros: small real programs that keep the value universe finite    *)

Inc       == Cat(Lit(1), W("add"))                               \* 1 add
Lt3       == Sub("?", Cat(Lit(3), W("?lt")))                     \* ?(3 ?lt)
IncLt3    == Cat(Inc, Lt3)                                       \* 1 add ?(3 ?lt)
Seq12     == Cap(Alt(Lit(1), Lit(2)))                            \* [1, 2]
Half      == Cat(Lit(2), W("div"))                               \* 2 div
Mod3      == Cat(Inc, Cat(Lit(3), W("mod")))                     \* 1 add 3 mod

E12       == Cat(Seq12, W("elem"))                               \* [1, 2] elem
P12       == Alt(Lit(1), Lit(2))                                 \* (1, 2): two stacks from one
T2        == Alt(Inc, Cat(Lit(2), W("add")))                     \* (1 add, 2 add)
T3        == Alt(Inc, Alt(Cat(Lit(2), W("add")), Cat(Lit(3), W("add"))))   \* (1 add, 2 add, 3 add)

CoreLeaves == {Lit(1), Lit(2), Emp, W("dup"), W("drop"), W("add"), E12, W("pos")}

\* programs of unusual size: many branches, deep nesting, long chains of names, many splices -- loops and limits
\* inside the implementation (chain walkers, recursion, fixed-size tables) are not reached by small programs
RECURSIVE AltN(_, _), NestScope(_, _), LetChain(_, _), NestBlocks(_, _), NestCap(_, _), FmtN(_), NestStar(_, _)
AltN(i, n) == IF i = n THEN Lit(n % 10) ELSE Alt(Lit(i % 10), AltN(i + 1, n))
NestScope(i, n) == IF i > n THEN Name("N1") ELSE Scope(<<"N" \o ToString(i)>>, Cat(Lit(i % 10), NestScope(i + 1, n)))
LetChain(i, n) == IF i > n THEN Name("L" \o ToString(n)) ELSE Cat(Let(<<"L" \o ToString(i)>>, IF i = 1 THEN Lit(1) ELSE Cat(Name("L" \o ToString(i - 1)), Inc)), LetChain(i + 1, n))
NestBlocks(i, n) == IF i > n THEN Name("A") ELSE BApply(NestBlocks(i + 1, n))
NestCap(i, n) == IF i > n THEN Lit(1) ELSE Cap(Alt(NestCap(i + 1, n), Lit(i % 10)))
FmtN(n) == Fmt([i \in 1..(2 * n) |-> IF i % 2 = 1 THEN FLit(<<"<">>) ELSE FExp(Emp)])
NestStar(i, n) == IF i > n THEN IncLt3 ELSE Star(NestStar(i + 1, n))
ScalePrograms ==
    {AltN(1, 24), NestScope(1, 18), LetChain(1, 20), NestBlocks(1, 14), NestCap(1, 12), NestStar(1, 6),
     Cat(Lit(1), Cat(Lit(2), Cat(Lit(3), Cat(Lit(4), Cat(Lit(5), Cat(Lit(6), FmtN(6))))))),
     Or(Sub("?", Lit(1)), AltN(1, 9)), Cat(Cap(AltN(1, 24)), Cat(W("elem"), Opt(Inc)))}

\* closures whose body changes a slot BELOW the top and restores what lies above it: the stacks that the closure
\* has to tell apart differ in the bottom (middle) slot only (C10-m)
SwapStep == Cat(W("swap"), Cat(Mod3, W("swap")))                  \* swap 1 add 3 mod swap
RotStep  == Cat(W("rot"), Cat(Mod3, Cat(W("rot"), W("rot"))))     \* rot 1 add 3 mod rot rot
BotSlotPrograms ==
    {Cat(Lit(0), Cat(Lit(7), Star(SwapStep))), Cat(Lit(0), Cat(Lit(7), Plus(SwapStep))),
     Cat(Lit(0), Cat(Lit(7), Cat(Lit(8), Star(RotStep)))), Cat(Lit(0), Cat(Lit(7), Cat(Lit(8), Plus(RotStep)))),
     Cat(Lit(0), Cat(Lit(7), Cat(Lit(8), Star(SwapStep)))), Cat(Lit(0), Cat(Lit(0), Star(SwapStep))),
     \* (the input sources put a value below whatever the program pushes: these change the source's own slot,
     \* the bottom one of the whole stack)
     Cat(Lit(7), Star(SwapStep)), Cat(Lit(7), Plus(SwapStep)), Cat(Lit(7), Cat(Lit(8), Star(RotStep))),
     Star(SwapStep), Plus(RotStep)}

LeavesOf(f) ==
    CASE f \in {"altor", "subif"} -> CoreLeaves
      [] f = "botslot" -> BotSlotPrograms
      [] f = "closure" ->
           {Lit(0), Emp, Inc, IncLt3, Half, Mod3, W("dup"), W("drop")}
      [] f = "names" ->
           {Lit(1), Lit(2), Emp, W("add"), W("drop"), Name("A"), Name("B"), Name("F")}
      [] f = "fmt" ->
           \* the string leaves carry unbalanced brackets: inside a splice the lexer counts brackets to find
           \* the end of the embedded program and must skip those of nested string literals
           {Lit(1), Lit(2), Emp, W("dup"), W("elem"), Seq12, Str(<<")">>), Str(<<"(", "a">>), W("add"), W("drop")}
      [] f = "blocks" -> {Name("A"), Name("B"), Lit(3)}
      \* blocks with parameters inside blocks: a nested block captures names that its enclosing block binds
      \* itself (X, Y) next to names that reach it through the enclosing block's environment (A), in any order of use
      [] f = "upvals" -> {Name("A"), Name("X"), Name("Y")}
      \* who sees which binding: operands of infix operators, branches, sub-expressions, all binding and reading A / B
      [] f = "scopes" -> {Name("A"), Name("B"), Lit(1), Lit(2)}
      [] f = "scale" -> ScalePrograms
      \* what tree::simplify rewrites: empty expressions next to one other member, E?, format strings, ALT in ALT
      [] f = "simp" -> {Emp, Lit(1)}
      \* a user binding that carries the name of a builtin word, read at several block depths
      [] f = "shadow" -> {Name("length"), Name("A"), Lit(3)}
      \* sub-chains that are fed several times, each time a stream of several stacks: multi-yield chunks as leaves
      [] f = "refeed" -> {P12, T2, T3, Lit(7), Emp, W("dup"), W("drop")}
      \* infix comparisons whose operands yield no value, one value, several values on both sides of the bound:
      \* `A op B' asks whether SOME pair of yields satisfies op, `!(A op B)' whether NONE does
      [] f = "cmp" -> {Lit(1), Lit(2), E12, Cat(EList, W("elem")), Cat(Seq12, Cat(W("elem"), Inc))}

UnaryOf(f) ==
    CASE f = "altor" -> {"cap", "sub?", "opt", "let1"}
      [] f = "subif" -> {"sub?", "sub!", "fmt1", "cap"}
      [] f = "closure" -> {"star", "plus", "opt", "cap"}
      [] f = "names" ->
           {"letA", "letAB", "scopeA", "capA", "subA", "bapply", "letF", "star", "opt"}
      [] f = "fmt" -> {"fmt1", "fmt2", "fmts", "cap", "opt"}
      [] f = "blocks" -> {"bapply", "letFcall"}
      [] f = "upvals" -> {"bapply", "bapplyX", "bapplyY"}
      [] f = "scopes" -> {"letA", "letB", "scopeA", "subA", "capA", "sub?", "fmt1", "opt"}
      [] f = "refeed" -> {"let1", "fmt1", "opt", "star", "sub?"}
      [] f = "cmp" -> {"sub?", "sub!", "cap"}
      [] f = "shadow" -> {"bapply", "scopeL", "letL", "letFcall"}
      [] f = "simp" -> {"opt", "cap", "sub?", "fmts"}
      [] f = "scale" -> {}
      [] f = "botslot" -> {}

BinaryOf(f) ==
    CASE f = "altor" -> {"cat", "alt", "or"}
      [] f = "subif" -> {"cat", "alt", "eq", "if2"}
      [] f = "closure" -> {"cat", "alt", "or"}
      [] f = "names" -> {"cat", "alt", "or"}
      [] f = "fmt" -> {"cat", "alt", "fmt3"}
      [] f = "blocks" -> {"cat"}
      [] f = "upvals" -> {"cat"}
      [] f = "scopes" -> {"cat", "eq", "alt", "or", "fmt3"}
      [] f = "refeed" -> {"cat", "or"}
      [] f = "cmp" -> {"lt", "le", "gt", "ge", "eq", "ne"}
      [] f = "shadow" -> {"cat"}
      [] f = "simp" -> {"cat", "alt", "or"}
      [] f = "scale" -> {}
      [] f = "botslot" -> {}

MkUnary(u, a) ==
    CASE u = "cap"  -> Cap(a)
      [] u = "sub?" -> Sub("?", a)
      [] u = "sub!" -> Sub("!", a)
      [] u = "star" -> Star(a)
      [] u = "plus" -> Plus(a)
      [] u = "opt"  -> Opt(a)
      [] u = "fmt1" -> Fmt(<<FLit(<<"<">>), FExp(a), FLit(<<">">>)>>)
      \* (the text between the splices is longer than a short-string buffer: what is kept of it per input stack
      \* while the left splice yields its values lives on the heap)
      [] u = "fmt2" -> Fmt(<<FExp(a), FLit(<<" ", "-", "-", " ", "a", "n", "d", " ", "t", "h", "e", "n", " ", "c", "o", "m", "e", "s", " ", "-", "-", " ">>), FExp(Emp)>>)
      [] u = "fmts" -> Cat(a, Fmt(<<FLit(<<"(">>), FExp(Emp), FLit(<<")">>)>>))
      [] u = "let1" -> Cat(Let(<<"X">>, a), Name("X"))
      [] u = "letA" -> Let(<<"A">>, a)
      [] u = "letB" -> Let(<<"B">>, a)
      [] u = "letAB" -> Let(<<"A", "B">>, a)
      [] u = "scopeA" -> Scope(<<"A">>, a)
      [] u = "scopeL" -> Scope(<<"length">>, a)
      [] u = "letL" -> Let(<<"length">>, a)
      [] u = "scopeAB" -> Scope(<<"A", "B">>, a)
      [] u = "capA" -> CapB(<<"A">>, a)
      [] u = "subA" -> SubB("?", <<"A">>, a)
      [] u = "bapply" -> BApply(a)
      [] u = "bapplyX" -> BApplyB(<<"X">>, a)
      [] u = "bapplyY" -> BApplyB(<<"Y">>, a)
      [] u = "letF" -> LetF("F", a)
      [] u = "letFcall" -> Cat(LetF("F", a), Name("F"))

MkBinary(b, x, y) ==
    CASE b = "cat" -> Cat(x, y)
      [] b = "alt" -> Alt(x, y)
      [] b = "or"  -> Or(x, y)
      [] b = "eq"  -> Infix("==", x, y)
      [] b = "lt"  -> Infix("<", x, y)
      [] b = "le"  -> Infix("<=", x, y)
      [] b = "gt"  -> Infix(">", x, y)
      [] b = "ge"  -> Infix(">=", x, y)
      [] b = "ne"  -> Infix("!=", x, y)
      [] b = "if2" -> If(x, y, Emp)
      [] b = "fmt3" -> Fmt(<<FExp(x), FLit(<<",">>), FExp(y)>>)

RECURSIVE PS(_, _)
PS(f, n) ==
    IF n = 1 THEN LeavesOf(f)
    ELSE {MkUnary(u, a) : u \in UnaryOf(f), a \in PS(f, n - 1)}
         \cup UNION {{MkBinary(b, x, y) : b \in BinaryOf(f), x \in PS(f, i), y \in PS(f, n - i)}
                     : i \in 1..(n - 1)}

AllPS(f, n) == UNION {PS(f, i) : i \in 1..n}

-----------------------------------------------------------------------------
(* when does the documentation fix the order of results?                   *)

RECURSIVE Single(_)
RECURSIVE SingleParts(_, _)
Single(p) ==
    CASE p.k \in {"emp", "lit", "str", "posw", "cap", "sub", "infix", "block", "elist"} -> TRUE
      [] p.k = "name" -> p.w # "F"       \* F names a block, which may yield many
      [] p.k = "word" -> p.w \notin {"elem", "relem", "apply"}
      [] p.k = "cat" -> Single(p.a) /\ Single(p.b)
      [] p.k \in {"alt", "opt", "star", "plus"} -> FALSE
      [] p.k = "or" -> Single(p.a) /\ Single(p.b)
      [] p.k = "scope" -> Single(p.a)
      [] p.k = "let" -> Single(p.a)
      [] p.k = "letf" -> TRUE
      [] p.k = "bapply" -> Single(p.a)
      [] p.k = "if" -> Single(p.a) /\ Single(p.b)
      [] p.k = "fmt" -> SingleParts(p.parts, 1)
SingleParts(parts, j) ==
    IF j > Len(parts) THEN TRUE
    ELSE IF "lit" \in DOMAIN parts[j] THEN SingleParts(parts, j + 1)
    ELSE Single(parts[j].e) /\ SingleParts(parts, j + 1)

\* no ALT (or E?) in a plain position: such an expression handles a stream
\* of inputs one after another
RECURSIVE NoPlainAlt(_)
NoPlainAlt(p) ==
    CASE p.k \in {"alt", "opt"} -> FALSE
      [] p.k = "cat" -> NoPlainAlt(p.a) /\ NoPlainAlt(p.b)
      [] p.k = "scope" -> NoPlainAlt(p.a)
      [] OTHER -> TRUE

RECURSIVE OrderFixed(_)
RECURSIVE OFParts(_, _, _)
OrderFixed(p) ==
    CASE p.k \in {"emp", "lit", "str", "word", "posw", "name", "block", "elist"} -> TRUE
      [] p.k = "cat" -> OrderFixed(p.a) /\ OrderFixed(p.b) /\ (Single(p.a) \/ NoPlainAlt(p.b))
      [] p.k \in {"alt", "or", "infix"} -> OrderFixed(p.a) /\ OrderFixed(p.b)
      [] p.k \in {"cap", "sub", "scope", "let", "opt", "letf", "bapply"} -> OrderFixed(p.a)
      [] p.k = "if" -> OrderFixed(p.c) /\ OrderFixed(p.a) /\ OrderFixed(p.b)
      [] p.k \in {"star", "plus"} -> FALSE
      [] p.k = "fmt" -> OFParts(p.parts, 1, 0)
OFParts(parts, j, multi) ==
    IF j > Len(parts) THEN multi <= 1
    ELSE IF "lit" \in DOMAIN parts[j] THEN OFParts(parts, j + 1, multi)
    ELSE OrderFixed(parts[j].e)
         /\ OFParts(parts, j + 1, multi + (IF Single(parts[j].e) THEN 0 ELSE 1))

-----------------------------------------------------------------------------
(* input sources: a stream of two stacks, and a single stack, per depth    *)

StreamSrc(d) ==
    CASE d <= 1 -> Alt(Lit(1), Lit(2))                  \* (1, 2)
      [] d = 2  -> Cat(Lit(1), Alt(Lit(1), Lit(2)))     \* 1 (1, 2)
      [] d = 3  -> Cat(Lit(2), Cat(Lit(1), Alt(Lit(1), Lit(2))))
SingleSrc(d) ==
    CASE d <= 1 -> Lit(1)
      [] d = 2  -> Cat(Lit(2), Lit(1))
      [] d = 3  -> Cat(Lit(1), Cat(Lit(2), Lit(1)))

\* `pos' of the strings that a format string yields numbers them in the order in which they are yielded;
\* where that order is not documented (a splice that interleaves several stacks) the numbering is not either
RECURSIVE PosFixed(_)
RECURSIVE PosFixedParts(_, _)
PosFixed(p) ==
    CASE p.k \in {"emp", "lit", "str", "word", "posw", "name", "elist"} -> TRUE
      [] p.k \in {"cat", "alt", "or", "infix"} -> PosFixed(p.a) /\ PosFixed(p.b)
      [] p.k = "if" -> PosFixed(p.c) /\ PosFixed(p.a) /\ PosFixed(p.b)
      [] p.k = "fmt" -> OrderFixed(p) /\ PosFixedParts(p.parts, 1)
      [] OTHER -> PosFixed(p.a)
PosFixedParts(parts, j) ==
    IF j > Len(parts) THEN TRUE
    ELSE IF "lit" \in DOMAIN parts[j] THEN PosFixedParts(parts, j + 1)
    ELSE PosFixed(parts[j].e) /\ PosFixedParts(parts, j + 1)

\* two identical stacks, one after the other
TwinSrc(d) ==
    CASE d <= 1 -> Alt(Lit(0), Lit(0))                  \* (0, 0)
      [] d = 2  -> Cat(Lit(1), Alt(Lit(0), Lit(0)))     \* 1 (0, 0)
      [] d = 3  -> Cat(Lit(2), Cat(Lit(1), Alt(Lit(0), Lit(0))))

\* The outermost construct hands its input stacks to a sub-chain one at a time and takes everything that
\* sub-chain yields for one stack before it looks at the next: what it yields for a stream of stacks is the
\* concatenation of what it yields for each, in the order of the stream.
RECURSIVE OneAtATime(_)
OneAtATime(p) ==
    CASE p.k \in {"or", "fmt", "cap", "sub", "infix", "let"} -> TRUE
      [] p.k \in {"lit", "str", "name", "elist", "posw", "emp"} -> TRUE
      [] p.k = "word" -> TRUE
      [] p.k = "cat" -> OneAtATime(p.a) /\ OneAtATime(p.b)
      [] p.k = "scope" -> OneAtATime(p.a)
      [] OTHER -> FALSE

RECURSIVE UsesBlocks(_)
RECURSIVE UsesBlocksParts(_, _)
UsesBlocks(p) ==
    CASE p.k \in {"letf", "bapply", "block"} -> TRUE
      [] p.k = "name" -> p.w = "F"
      [] p.k \in {"emp", "lit", "str", "word", "posw", "elist"} -> FALSE
      [] p.k \in {"cat", "alt", "or", "infix"} -> UsesBlocks(p.a) \/ UsesBlocks(p.b)
      [] p.k = "if" -> UsesBlocks(p.c) \/ UsesBlocks(p.a) \/ UsesBlocks(p.b)
      [] p.k = "fmt" -> UsesBlocksParts(p.parts, 1)
      [] OTHER -> UsesBlocks(p.a)
UsesBlocksParts(parts, j) ==
    IF j > Len(parts) THEN FALSE
    ELSE IF "lit" \in DOMAIN parts[j] THEN UsesBlocksParts(parts, j + 1)
    ELSE UsesBlocks(parts[j].e) \/ UsesBlocksParts(parts, j + 1)

\* what a family puts between the input source and the body
Prefix(f) ==
    IF f \in {"blocks", "upvals", "scopes", "shadow", "scale"} THEN Cat(Let(<<"A">>, Emp), Let(<<"B">>, Lit(7)))   \* let A := ; let B := 7;
    ELSE Emp

\* The body is legal on a stack of depth d: names closed, effect defined.
BodyOKF(f, p) == WellFormed(Cat(Prefix(f), p)) /\ ~IsBad(Eff(p)) /\ Eff(p).need <= 3
BodyOK(p) == BodyOKF("", p)

=============================================================================
