-------------------------------- MODULE Api --------------------------------
(***************************************************************************)
(* The C API objects around one compiled query (libzwerg.cc): the query    *)
(* is shared and immutable, every zw_result owns a private state buffer.   *)
(* Up to NSlots result sets are alive at once; the history is any          *)
(* interleaving of                                                         *)
(*     Execute(slot, input)   zw_query_execute  (an old result in the slot *)
(*                            is destroyed first)                          *)
(*     Pull(slot)             zw_result_next                               *)
(*     Destroy(slot)          zw_result_destroy                            *)
(* C12: what a slot has yielded is always a prefix of the fresh run of the *)
(* query on that slot's input (SlotsIndependent), whatever happened in the *)
(* other slots.  C13: every buffer is fully dead when destroyed.           *)
(***************************************************************************)
EXTENDS EngineOps

CONSTANTS NSlots, MaxHist, ABody    \* ABody: index of the query body in ApiBodies

ApiBodies == <<
    Alt(Inc, Cat(Inc, Inc)),                                   \* (1 add, 1 add 1 add)
    Or(Cat(Lt3, Alt(Inc, Emp)), Cat(Lit(9), W("add"))),        \* (?(3 ?lt) (1 add,) || 9 add)
    Cat(Cap(Alt(Emp, Inc)), W("elem")),                        \* [(, 1 add)] elem
    Star(IncLt3),                                              \* (1 add ?(3 ?lt))*
    Cat(Let(<<"X">>, Alt(Emp, Inc)), Name("X")),               \* let X := (, 1 add); X
    If(Lt3, Alt(Emp, Inc), Cat(Lit(0), W("add"))),             \* if ?(3 ?lt) then (, 1 add) else 0 add
    Fmt(<<FLit(<<"<">>), FExp(Alt(Emp, Inc)), FLit(<<">">>)>>) \* "<%( (, 1 add) %)>"
>>
Body == ApiBodies[ABody]
Inputs == <<Lit(1), Lit(2), Lit(5)>>       \* three input stacks
ProgFor(i) == Cat(Inputs[i], Body)

VARIABLES slots, hist
avars == <<slots, hist>>

Query == BuildQuery(ProgFor(1))     \* same op graph for every input: the source is node 2

Free == [live |-> FALSE]
\* a result set: private machine, the input it was created with, what it yielded
NewResult(i) == LET qq == BuildQuery(ProgFor(i)) IN
                [live |-> TRUE, inp |-> i, q |-> qq, m |-> FreshMach(qq), out |-> <<>>, done |-> FALSE]

AInit == slots = [s \in 1..NSlots |-> Free] /\ hist = <<>>

Execute(s, i) ==
    /\ slots' = [slots EXCEPT ![s] = NewResult(i)]
    /\ hist' = Append(hist, <<"e", s, i>>)
PullS(s) ==
    /\ slots[s].live
    /\ LET r == slots[s]
           x == Nx(r.q.ops, r.q.root, [r.m EXCEPT !.fuel = Fuel])
       IN slots' = [slots EXCEPT ![s] =
                       [r EXCEPT !.m = x.m,
                                 !.out = IF IsNull(x) THEN @ ELSE Append(@, Stk(x)),
                                 !.done = IsNull(x)]]
    /\ hist' = Append(hist, <<"p", s, 0>>)
DestroyS(s) ==
    /\ slots[s].live
    /\ slots' = [slots EXCEPT ![s] = Free]
    /\ hist' = Append(hist, <<"d", s, 0>>)

ANext == /\ Len(hist) < MaxHist
         /\ \E s \in 1..NSlots :
               \/ \E i \in 1..Len(Inputs) : Execute(s, i)
               \/ PullS(s)
               \/ DestroyS(s)
ASpec == AInit /\ [][ANext]_avars

IsPrefix(a, b) == Len(a) <= Len(b) /\ SubSeq(b, 1, Len(a)) = a

SlotsIndependent ==
    \A s \in 1..NSlots :
        slots[s].live =>
            LET fresh == EngineRun(ProgFor(slots[s].inp)).out IN
            /\ IsPrefix(slots[s].out, fresh)
            /\ slots[s].done => slots[s].out = fresh
NoLifecycleViolation == \A s \in 1..NSlots : slots[s].live => ~slots[s].m.bad
\* the history variable does not influence behaviour
AView == slots
=============================================================================
