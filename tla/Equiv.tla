------------------------------- MODULE Equiv -------------------------------
(***************************************************************************)
(* C15 at the level of the meaning: the equivalences that doc/syntax.rst   *)
(* declares hold for the denotation Zw!Den, for every operand program of   *)
(* the family up to the weight bound, on every input of the pool.          *)
(***************************************************************************)
EXTENDS Progs0, TLC

CONSTANTS QFamily, QMaxW

Operands == {p \in AllPS(QFamily, QMaxW) : BodyOK(p)}
InputsOf(p) == {<<IntV(1)>>, <<IntV(2), IntV(1)>>, <<IntV(1), IntV(2), IntV(3)>>}

BagOf(s) == [x \in Range(s) |-> Cardinality({i \in 1..Len(s) : s[i] = x})]
\* results as bare stacks (environments of the results are not observable)
Outs(p, stk) == LET x == Den(p, EmptyEnv, stk) IN
                [out |-> [j \in 1..Len(x.out) |-> x.out[j].s], hard |-> x.hard]
SameBag(p, q, stk) == LET a == Outs(p, stk) b == Outs(q, stk) IN
                      (a.hard \/ b.hard) \/ BagOf(a.out) = BagOf(b.out)
SameSeq(p, q, stk) == LET a == Outs(p, stk) b == Outs(q, stk) IN
                      (a.hard \/ b.hard) \/ a.out = b.out
Fits(p, stk) == ~IsBad(Eff(p)) /\ Eff(p).need <= Len(stk)

LeavesValue(p) == ~IsBad(Eff(p)) /\ Eff(p).need + Eff(p).delta >= 1 /\ Eff(p).delta >= 1

\* E?  ==  (E,)
OptIsAlt == \A e \in Operands : \A s \in InputsOf(e) :
               (Fits(Opt(e), s)) => SameSeq(Opt(e), Alt(e, Emp), s)
\* if C then A else B  ==  (?(C) A, !(C) B)
IfIsAlt == \A c \in AllPS(QFamily, 1), a \in AllPS(QFamily, 1), b \in Operands : \A s \in InputsOf(b) :
               (BodyOK(c) /\ BodyOK(a) /\ Fits(If(c, a, b), s))
                  => SameBag(If(c, a, b), Alt(Cat(Sub("?", c), a), Cat(Sub("!", c), b)), s)
\* ?(E)  ==  ([E] != [])      !(E)  ==  ([E] == [])
SubIsCapture == \A e \in Operands : \A s \in InputsOf(e) :
               (Fits(Sub("?", e), s) /\ LeavesValue(e)) =>
                  /\ SameSeq(Sub("?", e), Infix("!=", Cap(e), EList), s)
                  /\ SameSeq(Sub("!", e), Infix("==", Cap(e), EList), s)
\* A op B  ==  ?(let .a := A; let .b := B; .a .b ?op)
InfixIsLet == \A a \in AllPS(QFamily, 1), b \in Operands : \A s \in InputsOf(b) : \A op \in {"==", "<", ">="} :
               (BodyOK(a) /\ Fits(Infix(op, a, b), s)) =>
                  SameSeq(Infix(op, a, b),
                          Sub("?", Cat(Let(<<"Ta">>, a), Cat(Let(<<"Tb">>, b),
                                   Cat(Name("Ta"), Cat(Name("Tb"), W(InfixWord(op))))))), s)
\* X+  ==  X X*  (distinct stacks),  X** == X*
PlusIsCatStar == \A e \in Operands : \A s \in InputsOf(e) :
               Fits(Plus(e), s) => SameBag(Plus(e), Plus(Plus(e)), s) /\ SameBag(Star(e), Star(Star(e)), s)

ASSUME PrintT(<<"EQUIV", "operands", Cardinality(Operands)>>)
ASSUME OptIsAlt
ASSUME IfIsAlt
ASSUME SubIsCapture
ASSUME InfixIsLet
ASSUME PlusIsCatStar
=============================================================================
