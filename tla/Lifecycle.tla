----------------------------- MODULE Lifecycle -----------------------------
(***************************************************************************)
(* The discipline of the per-execution state buffer `scon` (scon.hh):      *)
(* every operator state is constructed exactly once before it is used and  *)
(* destroyed exactly once, no two live states overlap in the buffer, and   *)
(* the buffer is destroyed only when nothing in it is live (C13).          *)
(* The specification is independent of the program being executed, so any  *)
(* trace of con/des/get/dtor events recorded from the implementation can   *)
(* be validated against it (LifecycleTrace.tla).                           *)
(***************************************************************************)
EXTENDS Naturals, FiniteSets

CONSTANTS Bufs, Offs, Sizes

VARIABLE live      \* buffer -> set of <<offset, size>> constructed in it
lvars == <<live>>

Overlaps(a, b) == a[1] < b[1] + b[2] /\ b[1] < a[1] + a[2]

LInit == live = [b \in Bufs |-> {}]

Con(b, off, sz) ==
    /\ \A s \in live[b] : ~Overlaps(<<off, sz>>, s)
    /\ live' = [live EXCEPT ![b] = @ \cup {<<off, sz>>}]
Des(b, off, sz) ==
    /\ <<off, sz>> \in live[b]
    /\ live' = [live EXCEPT ![b] = @ \ {<<off, sz>>}]
Get(b, off, sz) ==
    /\ <<off, sz>> \in live[b]
    /\ UNCHANGED live
Dtor(b) ==
    /\ live[b] = {}
    /\ UNCHANGED live

LNext == \E b \in Bufs, off \in Offs, sz \in Sizes :
            Con(b, off, sz) \/ Des(b, off, sz) \/ Get(b, off, sz) \/ Dtor(b)
LSpec == LInit /\ [][LNext]_lvars

\* what the actions preserve
NoOverlap == \A b \in Bufs : \A s, t \in live[b] : s = t \/ ~Overlaps(s, t)
=============================================================================
