------------------------------- MODULE Assert -------------------------------
(***************************************************************************)
(* C04 on the meaning layer: assertion forms yield the incoming stack      *)
(* unchanged or nothing, the ? and ! flavours are complementary unless the *)
(* test itself fails, and let / capture leave everything below intact.     *)
(***************************************************************************)
EXTENDS Progs0, TLC

CONSTANTS QFamily, QMaxW

Bodies == {p \in AllPS(QFamily, QMaxW) : WellFormed(p) /\ ~IsBad(Eff(p)) /\ Eff(p).need <= 3}
Stacks == {<<IntV(1)>>, <<IntV(2), WithPos(IntV(1), 3)>>, <<SeqV(<<IntV(1)>>), IntV(2), IntV(3)>>,
           <<WithPos(SeqV(<<IntV(1)>>), 1), WithPos(IntV(2), 2)>>}
D(p, s) == Den(p, EmptyEnv, s)
Outs(x) == [j \in 1..Len(x.out) |-> x.out[j].s]

SubLeavesStack ==
    \A e \in Bodies : \A s \in Stacks : Eff(e).need <= Len(s) =>
        LET y == D(Sub("?", e), s) n == D(Sub("!", e), s) IN
        (y.hard \/ n.hard) \/
        /\ Outs(y) \in {<<s>>, <<>>} /\ Outs(n) \in {<<s>>, <<>>}
        /\ (Len(y.out) = 1) # (Len(n.out) = 1)
InfixLeavesStack ==
    \A a \in AllPS(QFamily, 1), e \in Bodies : \A s \in Stacks :
        (WellFormed(a) /\ ~IsBad(Eff(Infix("==", a, e))) /\ Eff(Infix("==", a, e)).need <= Len(s)) =>
        LET y == D(Infix("==", a, e), s) n == D(Infix("!=", a, e), s) IN
        (y.hard \/ n.hard) \/ (Outs(y) \in {<<s>>, <<>>} /\ Outs(n) \in {<<s>>, <<>>})
WordsComplement ==
    \A w \in {"eq", "lt", "gt", "le", "ge", "ne", "empty"} : \A s \in Stacks :
        LET y == Word("?" \o w, s) n == Word("!" \o w, s) IN
        (y.hard \/ n.hard) \/
        IF y.err > 0 \/ n.err > 0 THEN Len(y.out) = 0 /\ Len(n.out) = 0
        ELSE /\ y.out \in {<<s>>, <<>>} /\ n.out \in {<<s>>, <<>>}
             /\ (Len(y.out) = 1) # (Len(n.out) = 1)
LetLeavesStack ==
    \A e \in Bodies : \A s \in Stacks : (Eff(Let(<<"X">>, e)).need <= Len(s)) =>
        LET x == D(Let(<<"X">>, e), s) IN x.hard \/ \A j \in 1..Len(x.out) : x.out[j].s = s
CaptureLeavesStack ==
    \A e \in Bodies : \A s \in Stacks : (~IsBad(Eff(Cap(e))) /\ Eff(Cap(e)).need <= Len(s)) =>
        LET x == D(Cap(e), s) IN
        x.hard \/ (Len(x.out) = 1 /\ Front(x.out[1].s) = s /\ Last(x.out[1].s).t = "q")

ASSUME PrintT(<<"ASSERT", "bodies", Cardinality(Bodies)>>)
ASSUME SubLeavesStack
ASSUME InfixLeavesStack
ASSUME WordsComplement
ASSUME LetLeavesStack
ASSUME CaptureLeavesStack
=============================================================================
