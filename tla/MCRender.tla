------------------------------ MODULE MCRender ------------------------------
EXTENDS Render
ASSUME AllRoundTrip
ASSUME Injective
ASSUME IntShapesOK
ASSUME SeqRenderingCompositional
=============================================================================
