------------------------------- MODULE MCInt -------------------------------
(* TLC: every operand pair in both representations at a small word size.   *)
EXTENDS Int, TLC

VARIABLES a, b
Nums == {[u |-> u, sg |-> s] : u \in 0..(TwoW - 1), s \in BOOLEAN}
\* representations the implementation can produce: any bits, either tag
Init == a \in Nums /\ b \in Nums
Next == UNCHANGED <<a, b>>

InvAdd == AddExact(a, b)
InvSub == SubExact(a, b)
InvMul == MulExact(a, b)
InvDiv == DivExact(a, b)
InvDivStrict == DivExactStrict(a, b)
InvMod == ModExact(a, b)
InvNeg == NegExact(a)
InvLess == LessExact(a, b)
\* every labelled branch is reachable (vacuity guard): these are expected to be VIOLATED
NoBranch(lbl) == Add(a, b).br # lbl /\ Sub(a, b).br # lbl /\ Mul(a, b).br # lbl
                 /\ Div(a, b).br # lbl /\ Mod(a, b).br # lbl /\ Neg(a).br # lbl
=============================================================================
