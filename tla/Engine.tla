------------------------------ MODULE Engine ------------------------------
(***************************************************************************)
(* The pull engine as a transition system over the operators of EngineOps: *)
(* choose a program, construct the state (zw_query_execute), pull results  *)
(* one at a time (zw_result_next) until nullptr, destroy at any point.     *)
(* Invariants relate the mechanism to the meaning layer (Zw!Den).          *)
(***************************************************************************)
EXTENDS EngineOps

CONSTANTS EFamily, EMaxW \* which programs: family and weight bound of Progs0

-----------------------------------------------------------------------------
(* the transition system: execute, pull ... pull, destroy                  *)

VARIABLES prog,      \* the program (AST)
          simp,      \* compiled with (default) or without tree::simplify
          q,         \* the compiled query: [ops, root]
          mach,      \* [sc, bad, hard, err, fuel]
          out,       \* results pulled so far
          phase      \* "run" | "done" | "destroyed"
vars == <<prog, simp, q, mach, out, phase>>

\* every legal body of the family, behind a two-stack stream and behind a single stack
EngineBodies == {p \in AllPS(EFamily, EMaxW) : BodyOKF(EFamily, p)}
\* programs whose meaning involves a hard error or an unbounded closure are left out
Programs == {q0 \in {Cat(StreamSrc(Max(1, Eff(p).need)), Cat(Prefix(EFamily), p)) : p \in EngineBodies}
                    \cup {Cat(TwinSrc(Max(1, Eff(p).need)), Cat(Prefix(EFamily), p)) : p \in EngineBodies}
                    \cup {Cat(SingleSrc(Max(1, Eff(p).need)), Cat(Prefix(EFamily), p)) : p \in EngineBodies} :
                ~Run(q0).hard}

Init ==
    /\ prog \in Programs
    /\ simp \in BOOLEAN
    /\ q = (IF simp THEN BuildQuery(prog) ELSE BuildQueryNoSimp(prog))
    /\ mach = FreshMach(IF simp THEN BuildQuery(prog) ELSE BuildQueryNoSimp(prog))
    /\ out = <<>>
    /\ phase = "run"

Pull ==
    /\ phase = "run"
    /\ LET x == Nx(q.ops, q.root, [mach EXCEPT !.fuel = Fuel]) IN
       /\ mach' = x.m
       /\ IF IsNull(x) THEN out' = out /\ phase' = "done"
          ELSE out' = Append(out, Stk(x)) /\ phase' = "run"
    /\ UNCHANGED <<prog, simp, q>>

\* zw_result_destroy: at any time, also half-way (abandonment)
Destroy ==
    /\ phase \in {"run", "done"}
    /\ mach' = Des(q.ops, q.root, mach)
    /\ phase' = "destroyed"
    /\ UNCHANGED <<prog, simp, q, out>>

Next == Pull \/ Destroy
Spec == Init /\ [][Next]_vars

-----------------------------------------------------------------------------
(* properties *)

Bag(s) == [x \in Range(s) |-> Cardinality({i \in 1..Len(s) : s[i] = x})]
SubBag(a, b) == \A x \in DOMAIN a : x \in DOMAIN b /\ a[x] <= b[x]

Meaning == Run(prog)
\* results as compared: closures by position only; where the order of a format string's results is not
\* documented their `pos' is not either, and positions are left out
Cmp(o) == IF PosFixed(prog) THEN NormOut(o) ELSE [i \in 1..Len(o) |-> StripStk(NormStk(o[i]))]

\* Hard errors (popping an empty stack) are outside the compared behaviour.
Comparable == ~Meaning.hard /\ ~mach.hard

\* C01/C03/C10: what has been pulled is part of the meaning ...
OutWithinDen == Comparable => SubBag(Bag(Cmp(out)), Bag(Cmp(Meaning.out)))
\* ... and when the engine reports exhaustion, it is all of it
DoneMeansAll == (Comparable /\ phase = "done") => Bag(Cmp(out)) = Bag(Cmp(Meaning.out))
\* diagnostics are within the documented bounds once everything is pulled
DiagWithin == (Comparable /\ phase = "done") => (Meaning.lo <= mach.err /\ mach.err <= Meaning.hi)
\* C01: documented order
OrderWhereFixed ==
    (Comparable /\ phase = "done" /\ prog.k = "cat" /\ Single(prog.a) /\ OrderFixed(prog.b))
        => NormOut(out) = NormOut(Meaning.out)
\* C03: what the meaning layer calls well-formed compiles (no bind/read exception in build.cc)
Compiles == ~q.err
\* C15: tree::simplify reaches a fixed point free of the patterns it removes
Simplified == Simple(Simplify(TreeOf(prog))) /\ Simplify(Simplify(TreeOf(prog))) = Simplify(TreeOf(prog))
\* C01: two identical stacks handed one at a time to the outermost construct are answered with the same
\* sequence twice -- nothing is re-ordered because of a stack seen earlier
IsTwin == \E d \in 1..3 : prog.a = TwinSrc(d)
Periodic == (Comparable /\ phase = "done" /\ IsTwin /\ OneAtATime(prog.b.b) /\ Len(out) % 2 = 0)
               => SubSeq(out, 1, Len(out) \div 2) = SubSeq(out, Len(out) \div 2 + 1, Len(out))
\* C13: state lifecycle
Lifecycle == ~mach.bad
AllDeadAfterDestroy ==
    phase = "destroyed" => \A i \in 1..Len(q.ops) : IsDead(mach.sc[i])
\* the fuel bound is never what stops a pull (termination, C10)
NeverOutOfFuel == mach.fuel > 0

=============================================================================
