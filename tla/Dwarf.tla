------------------------------- MODULE Dwarf -------------------------------
(***************************************************************************)
(* DWARF forests and the two views dwgrep gives of them.                   *)
(*                                                                         *)
(* A forest F is a record                                                  *)
(*   [units |-> <<[kind |-> "cu" | "pu" | "tu" | "sk", ver |-> 2..5, root |-> id>>, ...],*)
(*    die   |-> [id |-> [tag, kids: Seq(id), attrs: Seq(attr), hc]]]       *)
(*   attr = [n |-> name, f |-> form, r |-> referenced DIE id or 0]         *)
(* tags: "cu" "pu" "imp" (DW_TAG_imported_unit) "ns" "var" "sub" ...       *)
(* attribute names that matter to the views: "import" "spec" (specifi-     *)
(* cation) "orig" (abstract_origin) "sibling" "decl" (declaration).        *)
(*                                                                         *)
(* MEANING                                                                 *)
(*   RawPreorder, RawParent, RawKids, RawAttrs: the tree on disk (C02);    *)
(*   a cooked DIE is [d |-> id, ch |-> <<imported_unit ids, innermost      *)
(*   first>>]; CookedKids / CookedEntries inline imports recursively and   *)
(*   in place; CookedParent / CookedRoot unwind the import chain (C05);    *)
(*   CookedAttrs integrates specification / abstract_origin (C06).         *)
(* MECHANISM                                                               *)
(*   AllDies: all_dies_iterator (cu, stack of parents, die) -- dwit.cc;    *)
(*   Producer: die_it_producer (stack of ranges + import chain),           *)
(*   FetchParent: value_die::get_parent, FindAttr / AttrProducer:          *)
(*   builtin-dw.cc.                                                        *)
(* PinnedParent / PinnedFind select the behaviour of the pinned commit.    *)
(***************************************************************************)
EXTENDS Integers, Sequences, FiniteSets, TLC

CONSTANTS PinnedParent, PinnedFind, PinnedProducer, PinnedCtx,
          PinnedNoCycleGuard,  \* import_partial_units inlines a unit into itself (before fix 6)
          PinnedPartialOnly    \* fetch_parent_die unwinds the import chain only at DW_TAG_partial_unit roots (before fix 5)

-----------------------------------------------------------------------------
(* helpers *)
RECURSIVE Concat(_)
Concat(ss) == IF Len(ss) = 0 THEN <<>> ELSE Head(ss) \o Concat(Tail(ss))
RangeOf(s) == {s[i] : i \in 1..Len(s)}
IndexOf(s, x) == CHOOSE i \in 1..Len(s) : s[i] = x

Die(F, d) == F.die[d]
Roots(F) == [i \in 1..Len(F.units) |-> F.units[i].root]
UnitOfRoot(F, r) == CHOOSE i \in 1..Len(F.units) : F.units[i].root = r

-----------------------------------------------------------------------------
(* MEANING: raw view *)

RECURSIVE Pre(_, _)
Pre(F, d) == <<d>> \o Concat([i \in 1..Len(Die(F, d).kids) |-> Pre(F, Die(F, d).kids[i])])
RawPreorder(F) == Concat([i \in 1..Len(F.units) |-> Pre(F, F.units[i].root)])
UnitDies(F, i) == Pre(F, F.units[i].root)
\* 0 for a unit root
RawParent(F, d) == IF \E p \in DOMAIN F.die : d \in RangeOf(Die(F, p).kids)
                   THEN CHOOSE p \in DOMAIN F.die : d \in RangeOf(Die(F, p).kids) ELSE 0
RECURSIVE RawRoot(_, _)
RawRoot(F, d) == IF RawParent(F, d) = 0 THEN d ELSE RawRoot(F, RawParent(F, d))
RawUnit(F, d) == UnitOfRoot(F, RawRoot(F, d))

-----------------------------------------------------------------------------
(* MEANING: cooked view *)

CD(d, ch) == [d |-> d, ch |-> ch]
ImportTarget(F, d) ==
    \* the unit root an imported_unit DIE points to, 0 if it is not a (valid) import
    IF Die(F, d).tag # "imp" THEN 0
    ELSE LET as == SelectSeq(Die(F, d).attrs, LAMBDA a: a.n = "import") IN
         IF Len(as) = 0 THEN 0 ELSE as[1].r

\* A unit is never inlined into itself: an import whose target is the unit the importing DIE lives in, or a unit
\* that is being inlined further up the chain (malformed DWARF), stays a plain DIE.
InlineTarget(F, k, ch) ==
    LET t == ImportTarget(F, k) IN
    IF t # 0 /\ (t = RawRoot(F, k) \/ \E i \in 1..Len(ch) : RawRoot(F, ch[i]) = t) THEN 0 ELSE t

RECURSIVE CookedKids(_, _)
CookedKids(F, v) ==
    Concat([i \in 1..Len(Die(F, v.d).kids) |->
              LET k == Die(F, v.d).kids[i] t == InlineTarget(F, k, v.ch) IN
              IF t # 0 THEN CookedKids(F, CD(t, <<k>> \o v.ch)) ELSE <<CD(k, v.ch)>>])

\* all DIEs below v (v excluded) in cooked pre-order
RECURSIVE CookedBelow(_, _)
CookedBelow(F, v) ==
    Concat([i \in 1..Len(Die(F, v.d).kids) |->
              LET k == Die(F, v.d).kids[i] t == InlineTarget(F, k, v.ch) IN
              IF t # 0 THEN CookedBelow(F, CD(t, <<k>> \o v.ch))
              ELSE <<CD(k, v.ch)>> \o CookedBelow(F, CD(k, v.ch))])

\* (a version 5 type unit "tu" or skeleton unit "sk" is listed like a compile unit: only partial units are hidden)
CookedUnits(F) == SelectSeq([i \in 1..Len(F.units) |-> i], LAMBDA i: F.units[i].kind # "pu")
\* `entry' on a Dwarf: every compile unit's DIEs, imports inlined
CookedEntries(F) ==
    Concat([j \in 1..Len(CookedUnits(F)) |->
              LET r == F.units[CookedUnits(F)[j]].root IN <<CD(r, <<>>)>> \o CookedBelow(F, CD(r, <<>>))])

\* the parent of a cooked DIE: <<>> for a root, <<value>> otherwise
RECURSIVE CookedParent(_, _)
CookedParent(F, v) ==
    LET p == RawParent(F, v.d) IN
    IF p = 0 THEN <<>>
    \* p is the root of an imported unit (a partial unit, or a normal one: DW_AT_import may name either)
    ELSE IF RawParent(F, p) = 0 /\ Len(v.ch) > 0
    THEN CookedParent(F, CD(Head(v.ch), Tail(v.ch)))      \* continue from the import point
    ELSE <<CD(p, v.ch)>>
RECURSIVE CookedRoot(_, _)
CookedRoot(F, v) == LET p == CookedParent(F, v) IN IF Len(p) = 0 THEN v ELSE CookedRoot(F, p[1])

\* attributes: own ones, then those reachable through specification / abstract_origin that the DIE
\* lacks; never sibling / declaration; no name twice
RefAttr(F, d, n) == LET as == SelectSeq(Die(F, d).attrs, LAMBDA a: a.n = n) IN IF Len(as) = 0 THEN 0 ELSE as[1].r
Integrable(a) == a.n \notin {"sibling", "decl"}
RECURSIVE Reach(_, _, _)
\* DIEs whose attributes are integrated into d, in the order the attribute producer visits them
Reach(F, todo, seen) ==
    IF Len(todo) = 0 THEN <<>>
    ELSE LET d == Head(todo) IN
         IF d \in seen THEN Reach(F, Tail(todo), seen)
         ELSE LET refs == SelectSeq(Die(F, d).attrs, LAMBDA a: a.n \in {"orig", "spec"})
                  \* pinned: a LIFO of the references in stored order; repaired: abstract_origin first
                  nx == IF PinnedProducer THEN [i \in 1..Len(refs) |-> refs[Len(refs) + 1 - i].r]
                        ELSE SelectSeq(<<RefAttr(F, d, "orig"), RefAttr(F, d, "spec")>>, LAMBDA x: x # 0)
              IN <<d>> \o Reach(F, nx \o Tail(todo), seen \cup {d})
\* [a |-> attribute, of |-> DIE it is stored in]
CookedAttrs(F, d) ==
    LET own == [i \in 1..Len(Die(F, d).attrs) |-> [a |-> Die(F, d).attrs[i], of |-> d]]
        ownnames == {Die(F, d).attrs[i].n : i \in 1..Len(Die(F, d).attrs)}
        others == Tail(Reach(F, <<d>>, {}))
        inh == Concat([j \in 1..Len(others) |->
                         [i \in 1..Len(Die(F, others[j]).attrs) |-> [a |-> Die(F, others[j]).attrs[i], of |-> others[j]]]])
        RECURSIVE Keep(_, _)
        Keep(as, seen) == IF Len(as) = 0 THEN <<>>
                          ELSE IF ~Integrable(Head(as).a) \/ Head(as).a.n \in seen THEN Keep(Tail(as), seen)
                          ELSE <<Head(as)>> \o Keep(Tail(as), seen \cup {Head(as).a.n})
    IN own \o Keep(inh, ownnames)
\* @AT_x: the attribute of that name in the cooked list
CookedAttrNamed(F, d, n) == SelectSeq(CookedAttrs(F, d), LAMBDA x: x.a.n = n)

-----------------------------------------------------------------------------
(* MECHANISM: all_dies_iterator::operator++ over the raw tree *)

FirstKid(F, d) == IF Len(Die(F, d).kids) = 0 THEN 0 ELSE Die(F, d).kids[1]
NextSib(F, d) ==
    LET p == RawParent(F, d) IN
    IF p = 0 THEN 0
    ELSE LET ks == Die(F, p).kids i == IndexOf(ks, d) IN IF i = Len(ks) THEN 0 ELSE ks[i + 1]

\* iterator state: [cu: unit index or 0 (end), stk: Seq(id), die: id]
ItBegin(F) == IF Len(F.units) = 0 THEN [cu |-> 0, stk |-> <<>>, die |-> 0]
              ELSE [cu |-> 1, stk |-> <<>>, die |-> F.units[1].root]
NextCu(F, it) == IF it.cu = Len(F.units) THEN [cu |-> 0, stk |-> <<>>, die |-> 0]
                 ELSE [cu |-> it.cu + 1, stk |-> <<>>, die |-> F.units[it.cu + 1].root]
RECURSIVE Ascend(_, _)
\* the do ... while (!m_stack.empty ()) loop
Ascend(F, it) ==
    LET s == NextSib(F, it.die) IN
    IF s # 0 THEN [it EXCEPT !.die = s]
    ELSE IF Len(it.stk) > 0
    THEN LET up == [it EXCEPT !.die = it.stk[Len(it.stk)], !.stk = SubSeq(it.stk, 1, Len(it.stk) - 1)]
         IN IF Len(up.stk) > 0 THEN Ascend(F, up) ELSE NextCu(F, up)
    ELSE NextCu(F, it)
ItNext(F, it) ==
    IF FirstKid(F, it.die) # 0
    THEN [it EXCEPT !.stk = Append(it.stk, it.die), !.die = FirstKid(F, it.die)]
    ELSE Ascend(F, it)
RECURSIVE ItRun(_, _, _)
ItRun(F, it, fuel) == IF it.cu = 0 \/ fuel = 0 THEN <<>> ELSE <<it>> \o ItRun(F, ItNext(F, it), fuel - 1)
AllDiesVisited(F) == LET r == ItRun(F, ItBegin(F), 64 + 2 * Len(F.die)) IN [i \in 1..Len(r) |-> r[i].die]
\* the parent the iterator's stack implies (what parent_cache records)
StackParents(F) == LET r == ItRun(F, ItBegin(F), 64 + 2 * Len(F.die)) IN
                   [i \in 1..Len(r) |-> <<r[i].die, IF Len(r[i].stk) = 0 THEN 0 ELSE r[i].stk[Len(r[i].stk)]>>]

-----------------------------------------------------------------------------
(* MECHANISM: die_it_producer in cooked mode, child flavour and all-DIEs flavour *)

\* a range is a sequence of DIE ids still to be visited
KidsRange(F, d) == Die(F, d).kids
UnitRangeSkipRoot(F, r) == Tail(Pre(F, r))
RECURSIVE Produce(_, _, _, _, _)
\* stack: Seq(range); chain: import chain; alldies: flavour; returns the yielded cooked DIEs
Produce(F, stack, chain, alldies, fuel) ==
    IF Len(stack) = 0 \/ fuel = 0 THEN <<>>
    ELSE LET top == stack[Len(stack)] IN
         IF Len(top) = 0
         THEN \* drop_finished_imports
              Produce(F, SubSeq(stack, 1, Len(stack) - 1), IF Len(chain) > 0 THEN Tail(chain) ELSE chain, alldies, fuel - 1)
         ELSE LET d == Head(top) t == IF PinnedNoCycleGuard THEN ImportTarget(F, d) ELSE InlineTarget(F, d, chain) IN
              IF t # 0
              THEN \* import_partial_units: skip the DIE, push the unit's range without its root
                   Produce(F, Append([stack EXCEPT ![Len(stack)] = Tail(top)],
                                     IF alldies THEN UnitRangeSkipRoot(F, t) ELSE KidsRange(F, t)),
                           <<d>> \o chain, alldies, fuel - 1)
              ELSE <<CD(d, chain)>> \o Produce(F, [stack EXCEPT ![Len(stack)] = Tail(top)], chain, alldies, fuel - 1)

ProducerKids(F, v) == Produce(F, <<KidsRange(F, v.d)>>, v.ch, FALSE, 200 + 4 * Len(F.die))
ProducerEntries(F) ==
    Concat([j \in 1..Len(CookedUnits(F)) |->
              Produce(F, <<Pre(F, F.units[CookedUnits(F)[j]].root)>>, <<>>, TRUE, 400 + 4 * Len(F.die))])

\* value_die::get_parent / fetch_parent_die
RECURSIVE FetchParentLoop(_, _)
FetchParentLoop(F, a) ==      \* a: cooked value; returns [p: raw parent id, a: the value we ended at]
    LET p == RawParent(F, a.d) IN
    IF p # 0 /\ (IF PinnedPartialOnly THEN Die(F, p).tag = "pu" ELSE RawParent(F, p) = 0) /\ Len(a.ch) > 0
    THEN FetchParentLoop(F, CD(Head(a.ch), Tail(a.ch)))
    ELSE [p |-> p, a |-> a]
FetchParent(F, v) ==
    LET r == FetchParentLoop(F, v) IN
    IF r.p = 0 THEN <<>>
    ELSE <<CD(r.p, IF PinnedParent THEN <<>> ELSE r.a.ch)>>     \* the pinned commit drops the chain
RECURSIVE RootVia(_, _, _)
RootVia(F, v, fuel) == LET p == FetchParent(F, v) IN IF Len(p) = 0 \/ fuel = 0 THEN v ELSE RootVia(F, p[1], fuel - 1)

\* find_attribute (used by @AT_x and ?AT_x): depth first; `vis': the DIEs already looked at on this search
\* (the guard against references that lead back -- malformed DWARF -- added with fix 4)
RECURSIVE FindAttrV(_, _, _, _, _)
\* The result names the attribute, the DIE that holds it (`of') and the DIE in whose context the value is read
\* (`ctx': its type decides the sign of DW_AT_const_value, its unit's line table the name behind DW_AT_decl_file,
\* ...).  The context is the holder.  Before fix 39401b0 (PinnedCtx) the value_die of the holder was created for
\* a chain of length one only; for longer chains the caller fell back to the DIE it had started from.
FindAttrV(F, d, n, vis, depth) ==
    IF d \in vis THEN [r |-> <<>>, vis |-> vis]
    ELSE LET own == SelectSeq(Die(F, d).attrs, LAMBDA a: a.n = n)
             v1 == vis \cup {d}
         IN IF Len(own) > 0 THEN [r |-> <<[a |-> own[1], of |-> d, depth |-> depth]>>, vis |-> v1]
            ELSE IF ~Integrable([n |-> n]) THEN [r |-> <<>>, vis |-> v1]
            ELSE LET first == IF PinnedFind THEN "spec" ELSE "orig"
                     second == IF PinnedFind THEN "orig" ELSE "spec"
                     r1 == IF RefAttr(F, d, first) # 0 THEN FindAttrV(F, RefAttr(F, d, first), n, v1, depth + 1) ELSE [r |-> <<>>, vis |-> v1]
                 IN IF Len(r1.r) > 0 THEN r1
                    ELSE IF RefAttr(F, d, second) # 0 THEN FindAttrV(F, RefAttr(F, d, second), n, r1.vis, depth + 1) ELSE r1
\* the DIE in whose context @AT_x reads the value it found
FindCtx(F, d, n) == LET r == FindAttrV(F, d, n, {}, 0).r IN
                    IF Len(r) = 0 THEN 0 ELSE IF PinnedCtx /\ r[1].depth >= 2 THEN d ELSE r[1].of
FindAttr(F, d, n, fuel) == LET r == FindAttrV(F, d, n, {}, 0).r IN [i \in 1..Len(r) |-> [a |-> r[i].a, of |-> r[i].of]]

-----------------------------------------------------------------------------
(* properties of one forest *)

RawOK(F) ==
    /\ AllDiesVisited(F) = RawPreorder(F)                                   \* each DIE once, in section order
    /\ \A i \in 1..Len(StackParents(F)) : StackParents(F)[i][2] = RawParent(F, StackParents(F)[i][1])

NavOK(F) ==
    LET E == CookedEntries(F) IN
    /\ ProducerEntries(F) = E
    /\ \A i \in 1..Len(E) :
          /\ ProducerKids(F, E[i]) = CookedKids(F, E[i])
          \* every child has the producing DIE as parent, with the same import chain
          /\ \A j \in 1..Len(CookedKids(F, E[i])) : FetchParent(F, CookedKids(F, E[i])[j]) = <<E[i]>>
          /\ FetchParent(F, E[i]) = CookedParent(F, E[i])
          \* root = end of the parent chain, and it is a compile unit root without import chain
          /\ RootVia(F, E[i], 32 + Len(F.die)) = CookedRoot(F, E[i])
          /\ CookedRoot(F, E[i]).ch = <<>> /\ RawParent(F, CookedRoot(F, E[i]).d) = 0

AttrOK(F) ==
    \A d \in DOMAIN F.die :
       \A n \in {"name", "line", "type", "ext", "sibling", "decl"} :
          LET viaList == CookedAttrNamed(F, d, n) viaFind == FindAttr(F, d, n, 8) IN
          \* @AT_x = attribute ?AT_x cooked; ?AT_x iff that yields
          /\ (Len(viaList) > 0) = (Len(viaFind) > 0) /\ (Len(viaList) > 0 => viaList[1] = viaFind[1])
          \* ... and reads it in the context of the DIE that holds it, as `attribute' does
          /\ (Len(viaFind) > 0 => FindCtx(F, d, n) = viaFind[1].of)
=============================================================================
