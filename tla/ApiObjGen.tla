------------------------------ MODULE ApiObjGen ------------------------------
(* Random call sequences of ApiObj with the state expected after every call,  *)
(* for replay on the real library (harness/apidrv.cc, public API only).       *)
EXTENDS ApiObj, Json, SequencesExt

CONSTANTS OutFile, NBehaviours, Len0

RECURSIVE Walk(_, _, _)
Walk(s, k, acc) ==
    IF k = 0 THEN acc
    ELSE LET en == {op \in Ops(s) : Enabled(s, op)} IN
         IF en = {} THEN acc
         ELSE LET kind == RandomElement({o[1] : o \in en})          \* every kind of call equally often
                  op == RandomElement({o \in en : o[1] = kind})
                  s2 == Apply(s, op)
              IN Walk(s2, k - 1, Append(acc, [op |-> op, after |-> s2]))

OwnOf(o) == IF o = <<"c">> THEN "c" ELSE IF o = <<"dead">> THEN "dead" ELSE "s" \o ToString(o[2])
JVal(r) == [kind |-> r.kind, sgn |-> r.sgn, v |-> r.v, dom |-> r.dom, pos |-> r.pos, own |-> OwnOf(r.own)]
JState(s) == [vals |-> [i \in 1..Len(s.vals) |-> JVal(s.vals[i])],
              stks |-> [k \in 1..Len(s.stks) |-> [items |-> s.stks[k].items, live |-> s.stks[k].live]]]
N(x) == ToString(x)
JOp(op) == CASE op[1] \in {"i64", "u64"} -> <<op[1], op[2], op[3], N(op[4])>>
             [] op[1] = "str" -> <<op[1], op[2], N(op[3])>>
             [] op[1] = "clone" -> <<op[1], N(op[2]), N(op[3])>>
             [] op[1] \in {"fmt", "vdestroy", "sdestroy"} -> <<op[1], N(op[2])>>
             [] op[1] \in {"push", "take"} -> <<op[1], N(op[2]), N(op[3])>>
             [] op[1] = "exec" -> <<op[1], op[2], N(op[3])>>
             [] OTHER -> <<op[1]>>
Beh(j) == LET w == Walk(Init0, Len0, <<>>) IN [b |-> j, steps |-> [i \in 1..Len(w) |-> [op |-> JOp(w[i].op), after |-> JState(w[i].after)]]]
ASSUME ndJsonSerialize(OutFile, [j \in 1..NBehaviours |-> Beh(j)])
ASSUME PrintT(<<"APIOBJ", NBehaviours, Len0>>)
=============================================================================
