------------------------------- MODULE Tree -------------------------------
(***************************************************************************)
(* The parse tree (libzwerg/tree.hh) between the text and the op graph:    *)
(*                                                                         *)
(*   TreeOf(ast)   what the grammar actions of parser.yy and the creators  *)
(*                 of tree_cr.hh build for a program (ast as in Zw.tla,    *)
(*                 written out by lib/zw.py: unparse);                     *)
(*   Simplify(t)   tree::simplify (tree.cc), step by step;                 *)
(*   the op graph is built from the tree in EngineOps!BuildT (build.cc).   *)
(*                                                                         *)
(* A node is [tt, x, n, ch]: tree_type, the string payload as a sequence   *)
(* of strings (m_str, the printed m_cst, or the builtin's name), a number  *)
(* (the value of a CONST, the keep count of a SUBX_EVAL, the position of   *)
(* a position assertion) and the children.  NIL stands for nullptr.        *)
(* The driver prints the real tree before and after simplification; the    *)
(* checks compare it with these node for node.                             *)
(***************************************************************************)
EXTENDS Zw, TLC

Node(tt, x, n, ch) == [tt |-> tt, x |-> x, n |-> n, ch |-> ch]
N0(tt)        == Node(tt, <<>>, 0, <<>>)
N1(tt, a)     == Node(tt, <<>>, 0, <<a>>)
NStr(tt, s)   == Node(tt, <<s>>, 0, <<>>)
NIL           == N0("NIL")
IsNil(t)      == t.tt = "NIL"
Nop           == N0("NOP")

-----------------------------------------------------------------------------
(* tree_cr.hh *)

\* tree::create_cat <TT> (t1, t2): n-ary CAT / ALT / OR nodes absorb operands of their own type
CreateCat(tt, t1, t2) ==
    LET c1 == ~IsNil(t1) /\ t1.tt = tt
        c2 == ~IsNil(t2) /\ t2.tt = tt
    IN IF c1 /\ c2 THEN [t1 EXCEPT !.ch = @ \o t2.ch]                 \* take_cat
       ELSE IF c1 /\ ~IsNil(t2) THEN [t1 EXCEPT !.ch = Append(@, t2)]  \* take_child
       ELSE IF c2 /\ ~IsNil(t1) THEN [t2 EXCEPT !.ch = <<t1>> \o @]    \* take_child_front
       ELSE IF IsNil(t1) THEN t2
       ELSE IF IsNil(t2) THEN t1
       ELSE Node(tt, <<>>, 0, <<t1, t2>>)

CreateScope(t) == N1("SCOPE", t)
CreateAssert(t) == N1("ASSERT", t)
CreateNeg(t) == N1("PRED_NOT", t)

-----------------------------------------------------------------------------
(* parser.yy: helpers *)

MaybeNop(t) == IF IsNil(t) THEN Nop ELSE t
WrapInScopeUnless(tt, t) == LET r == MaybeNop(t) IN IF r.tt = tt THEN r ELSE CreateScope(r)

\* IdList is right recursive and pushes at the back: the vector holds the ids in reverse, so the
\* rightmost id is bound first (to the top of stack)
RECURSIVE TreeForIdBlock(_)
TreeForIdBlock(ids) ==      \* ids as written
    IF Len(ids) = 0 THEN NIL
    ELSE CreateCat("CAT", NStr("BIND", Last(ids)), TreeForIdBlock(Front(ids)))

ParseSubx(ids, subx, force) ==
    LET r == CreateCat("CAT", TreeForIdBlock(ids), subx)
    IN IF force \/ Len(ids) > 0 THEN CreateScope(r) ELSE r

ParseLet(ids, subx) ==
    CreateCat("CAT", Node("SUBX_EVAL", <<ToString(Len(ids))>>, Len(ids), <<CreateScope(subx)>>),
              TreeForIdBlock(ids))

ParseOpTmplet(name, t) ==
    CreateCat("CAT", Node("SUBX_EVAL", <<"1">>, 1, <<CreateScope(MaybeNop(t))>>), TreeForIdBlock(<<name>>))

\* take_child appends without flattening: the second template stays a nested CAT until simplify
ParseOp(a, b, word) ==
    LET ta == ParseOpTmplet("~a~", a)
        t1 == [ta EXCEPT !.ch = @ \o <<ParseOpTmplet("~b~", b), NStr("READ", "~a~"), NStr("READ", "~b~"),
                                      NStr("READ", word)>>]
    IN CreateAssert(N1("PRED_SUBX_ANY", CreateScope(t1)))

-----------------------------------------------------------------------------
(* parser.yy: the grammar actions, by the constructs of the AST.  T(p) is   *)
(* the value of the nonterminal that p is written as (Statement or, for    *)
(* CAT / ALT / OR / infix, the list it forms); parentheses without an id   *)
(* block add nothing (ParseSubx with no ids).                              *)

RECURSIVE T(_)
RECURSIVE TParts(_, _, _)
\* Program: AltList, through maybe_nop
TP(p) == MaybeNop(T(p))
T(p) ==
    CASE p.k = "emp" -> Nop                          \* written "()": Program of nothing
      [] p.k = "lit" -> Node("CONST", <<ToString(p.n)>>, p.n, <<>>)
      [] p.k = "elist" -> N0("EMPTY_LIST")
      [] p.k = "str" -> N1("FORMAT", Node("STR", p.w, 0, <<>>))       \* the lexer's fmtlit
      [] p.k = "word" -> NStr("READ", p.w)
      [] p.k = "name" -> NStr("READ", p.w)
      [] p.k = "posw" -> Node("F_BUILTIN", <<"pred_pos", IF p.p THEN "?" ELSE "!">>, p.n, <<>>)
      [] p.k = "cat" -> CreateCat("CAT", T(p.a), T(p.b))
      [] p.k = "alt" -> CreateCat("ALT", WrapInScopeUnless("ALT", T(p.a)), WrapInScopeUnless("ALT", T(p.b)))
      [] p.k = "or" -> CreateCat("OR", WrapInScopeUnless("OR", T(p.a)), WrapInScopeUnless("OR", T(p.b)))
      [] p.k = "opt" -> CreateCat("ALT", T(p.a), Nop)
      [] p.k = "star" ->
            LET t1 == T(p.a) IN
            IF t1.tt = "CLOSE_STAR" THEN t1
            ELSE IF t1.tt = "CLOSE_PLUS" THEN [t1 EXCEPT !.tt = "CLOSE_STAR"]
            ELSE N1("CLOSE_STAR", CreateScope(t1))
      [] p.k = "plus" ->
            LET t1 == T(p.a) IN
            IF t1.tt \in {"CLOSE_STAR", "CLOSE_PLUS"} THEN t1 ELSE N1("CLOSE_PLUS", CreateScope(t1))
      [] p.k = "scope" -> ParseSubx(p.ids, TP(p.a), FALSE)
      [] p.k = "cap" ->
            CreateScope(CreateCat("CAT", TreeForIdBlock(p.ids), N1("CAPTURE", CreateScope(TP(p.a)))))
      [] p.k = "sub" ->
            LET s == N1("PRED_SUBX_ANY", ParseSubx(p.ids, TP(p.a), FALSE))
            IN CreateAssert(IF p.w = "?" THEN s ELSE CreateNeg(s))
      [] p.k = "infix" -> ParseOp(T(p.a), T(p.b), p.w)
      [] p.k = "let" -> ParseLet(p.ids, TP(p.a))
      [] p.k = "if" -> Node("IFELSE", <<>>, 0, <<CreateScope(T(p.c)), CreateScope(T(p.a)), CreateScope(T(p.b))>>)
      [] p.k = "fmt" -> Node("FORMAT", <<>>, 0, TParts(p.parts, 1, <<>>))
      [] p.k = "block" -> N1("BLOCK", ParseSubx(p.ids, TP(p.a), TRUE))
      [] p.k = "bapply" -> CreateCat("CAT", N1("BLOCK", ParseSubx(p.ids, TP(p.a), TRUE)), NStr("READ", "apply"))
      [] p.k = "letf" -> ParseLet(<<p.w>>, N1("BLOCK", ParseSubx(<<>>, TP(p.a), TRUE)))
\* the lexer collects literal text and flushes it (flush_str) before every splice and at the end of the
\* string, also when there is none: STR, splice, STR, ..., STR
TParts(parts, j, cur) ==
    IF j > Len(parts) THEN <<Node("STR", cur, 0, <<>>)>>
    ELSE IF "lit" \in DOMAIN parts[j] THEN TParts(parts, j + 1, cur \o parts[j].lit)
    ELSE <<Node("STR", cur, 0, <<>>), TP(parts[j].e)>> \o TParts(parts, j + 1, <<>>)

\* Query: Program TOK_EOF
TreeOf(p) == TP(p)

-----------------------------------------------------------------------------
(* tree::simplify, in the order of the statements of tree.cc *)

RECURSIVE FlattenSame(_, _)
FlattenSame(tt, ch) ==
    IF Len(ch) = 0 THEN <<>>
    ELSE (IF Head(ch).tt = tt THEN FlattenSame(tt, Head(ch).ch) ELSE <<Head(ch)>>) \o FlattenSame(tt, Tail(ch))

RECURSIVE Simplify(_)
Simplify(t) ==
    LET \* recurse
        a0 == [t EXCEPT !.ch = [i \in 1..Len(t.ch) |-> Simplify(t.ch[i])]]
        \* promote CATs in CAT nodes and ALTs in ALT nodes
        a == IF a0.tt \in {"CAT", "ALT"} THEN [a0 EXCEPT !.ch = FlattenSame(a0.tt, a0.ch)] ELSE a0
        \* promote CAT's only child
        b == IF a.tt = "CAT" /\ Len(a.ch) = 1 THEN Simplify(a.ch[1]) ELSE a
        \* (FORMAT (STR)) is (STR)
        c == IF b.tt = "FORMAT" /\ Len(b.ch) = 1 /\ b.ch[1].tt = "STR" THEN Simplify(b.ch[1]) ELSE b
        \* drop NOPs in CAT nodes
        d == IF c.tt = "CAT" /\ (\E i \in 1..Len(c.ch) : c.ch[i].tt = "NOP")
             THEN Simplify([c EXCEPT !.ch = SelectSeq(c.ch, LAMBDA k: k.tt # "NOP")])
             ELSE c
    IN d

\* a fixed point, and free of the patterns it removes
RECURSIVE Simple(_)
Simple(t) ==
    /\ t.tt \in {"CAT", "ALT"} => \A i \in 1..Len(t.ch) : t.ch[i].tt # t.tt
    /\ t.tt = "CAT" => Len(t.ch) # 1 /\ \A i \in 1..Len(t.ch) : t.ch[i].tt # "NOP"
    /\ ~(t.tt = "FORMAT" /\ Len(t.ch) = 1 /\ t.ch[1].tt = "STR")
    /\ \A i \in 1..Len(t.ch) : Simple(t.ch[i])

=============================================================================
