------------------------------- MODULE LocGen -------------------------------
EXTENDS Loc, Json, SequencesExt
CONSTANT OutFile
ASSUME AllElemOK
ASSUME AbbrevOnce
\* the table names every operation once and every code once
ASSUME \A i, j \in 1..Len(OpTable) : i # j => OpTable[i].code # OpTable[j].code /\ OpTable[i].atom # OpTable[j].atom
ASSUME PrintT(<<"TYPEDOPS", OperandsReported, TwinsAgree>>)
ASSUME \A i, j \in 1..Len(TypedOps) : i # j => TypedOps[i].code # TypedOps[j].code /\ TypedOps[i].atom # TypedOps[j].atom
ASSUME LET es == SetToSeq(Exprs) rs == SetToSeq(RefLists) IN
       ndJsonSerialize(OutFile,
          [j \in 1..Len(es) |-> [kind |-> "expr", ops |-> es[j], vals |-> [i \in 1..Len(es[j]) |-> Values(es[j][i])]]]
          \* every operation of the table on its own, with its own operands
          \o [j \in 1..Len(OpTable) |-> [kind |-> "sweep", ops |-> <<OpTable[j]>>, vals |-> <<Values(OpTable[j])>>]]
          \o [j \in 1..Len(TypedOps) |-> [kind |-> "typed", op |-> TypedOps[j], branch |-> OpBranch(TypedOps[j].atom)]]
          \o [j \in 1..Len(LocAttrs) |-> [kind |-> "locattr", at |-> LocAttrs[j].at, code |-> LocAttrs[j].code]]
          \o [j \in 1..Len(rs) |-> [kind |-> "abbrev", refs |-> rs[j], distinct |-> Distinct(rs[j], {})]])
=============================================================================
