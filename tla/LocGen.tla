------------------------------- MODULE LocGen -------------------------------
EXTENDS Loc, Json, SequencesExt
CONSTANT OutFile
ASSUME AllElemOK
ASSUME AbbrevOnce
ASSUME LET es == SetToSeq(Exprs) rs == SetToSeq(RefLists) IN
       ndJsonSerialize(OutFile,
          [j \in 1..Len(es) |-> [kind |-> "expr", ops |-> es[j], vals |-> [i \in 1..Len(es[j]) |-> Values(es[j][i])]]]
          \o [j \in 1..Len(rs) |-> [kind |-> "abbrev", refs |-> rs[j], distinct |-> Distinct(rs[j], {})]])
=============================================================================
