----------------------------- MODULE GrammarGen -----------------------------
(* All token-class strings up to length MaxN whose first token is in this   *)
(* shard's share, with the verdict of the grammar recogniser.               *)
EXTENDS Grammar, Json, SequencesExt

CONSTANTS MaxN, Shard, NShards, OutFile

Alphabet == <<"(", ")", "?(", "[", "]", "{", "}", "*", "+", "?", ",", "||", "|", ":", ";", ":=",
              "if", "then", "else", "let", "W", "NW", "N", "OP", "S", "US", "BN", "!(">>

RECURSIVE Strings(_)
Strings(n) == IF n = 0 THEN {<<>>}
              ELSE LET prev == Strings(n - 1) IN
                   prev \cup {Append(s, Alphabet[a]) : s \in {x \in prev : Len(x) = n - 1}, a \in 1..Len(Alphabet)}

Mine == {s \in Strings(MaxN) : Len(s) > 0 /\ (CHOOSE a \in 1..Len(Alphabet) : Alphabet[a] = s[1]) % NShards = Shard}
       \cup (IF Shard = 0 THEN {<<>>} ELSE {})

ASSUME LET sq == SetToSeq(Mine) IN
       /\ ndJsonSerialize(OutFile, [j \in 1..Len(sq) |-> [t |-> sq[j], v |-> Verdict(sq[j])]])
       /\ PrintT(<<"GRAMMAR", Len(sq)>>)
=============================================================================
