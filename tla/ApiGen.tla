------------------------------- MODULE ApiGen -------------------------------
(* All schedules (histories over result slots) up to a length bound, for   *)
(* replay against the real C API.  A schedule is program independent.      *)
EXTENDS Naturals, Sequences, FiniteSets, TLC, Json, SequencesExt

CONSTANTS NSlots, NInputs, MaxLen, OutFile

Ops(live) ==
    {<<"e", s, i>> : s \in 1..NSlots, i \in 1..NInputs}
    \cup {<<"p", s, 0>> : s \in live} \cup {<<"d", s, 0>> : s \in live}
LiveAfter(live, op) ==
    IF op[1] = "e" THEN live \cup {op[2]} ELSE IF op[1] = "d" THEN live \ {op[2]} ELSE live

\* canonical schedules only: slot numbers are used in order of first use
CanonOp(op, used) == op[1] # "e" \/ op[2] \in used \/ op[2] = Cardinality(used) + 1

RECURSIVE Scheds(_, _, _, _)
Scheds(n, live, used, pre) ==
    IF n = 0 THEN {pre}
    ELSE {pre} \cup UNION {Scheds(n - 1, LiveAfter(live, op),
                                  IF op[1] = "e" THEN used \cup {op[2]} ELSE used, Append(pre, op))
                           : op \in {o \in Ops(live) : CanonOp(o, used)}}

\* keep schedules that end with a pull or destroy and contain at least one pull
Useful(h) == Len(h) > 0 /\ h[Len(h)][1] # "e" /\ \E j \in 1..Len(h) : h[j][1] = "p"
All == {h \in Scheds(MaxLen, {}, {}, <<>>) : Useful(h)}
ToJ(h) == [j \in 1..Len(h) |-> <<h[j][1], h[j][2], h[j][3]>>]
ASSUME PrintT(<<"NSCHED", Cardinality(All)>>)
ASSUME ndJsonSerialize(OutFile, LET sq == SetToSeq(All) IN [j \in 1..Len(sq) |-> ToJ(sq[j])])
=============================================================================
