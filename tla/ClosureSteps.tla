---------------------------- MODULE ClosureSteps ----------------------------
(***************************************************************************)
(* op_tr_closure (op.cc) as a small-step transition system, so that        *)
(* termination is a temporal property rather than a fuel argument (C10).   *)
(*                                                                         *)
(* The body E is abstracted to a finite graph: Succ[n] is the sequence of  *)
(* stacks E yields for stack n (multi-yield, repeats, cycles and           *)
(* self-loops allowed).  Inputs is the stream of stacks arriving from      *)
(* upstream.  One step = one branch of next () / next_from_op /            *)
(* yield_and_cache / send_to_op / next_from_upstream:                      *)
(*    Drain   the body op yields its next result for the stack it was fed  *)
(*    Feed    the body is drained: feed it the most recently cached stack  *)
(*    Pull    work list empty: clear `seen', take the next input           *)
(*    Finish  upstream exhausted                                           *)
(* Properties: every run terminates (under weak fairness of the steps),    *)
(* and for each input the yielded stacks are exactly the stacks reachable  *)
(* from it (star: including the input; plus: the results of E followed by   *)
(* the star closure), each exactly once.                                   *)
(* MutSeen = "late" marks a stack as seen when it is expanded instead of   *)
(* when it is yielded (a seeded defect: duplicates); "noclear" forgets to  *)
(* clear `seen' between inputs.                                            *)
(***************************************************************************)
EXTENDS Naturals, Sequences, FiniteSets, TLC

CONSTANTS Nodes, IsPlus, MutSeen

VARIABLES succ,      \* the graph: node -> Seq(node), chosen initially
          inputs,    \* stacks still to come from upstream
          ins,       \* the whole input stream (constant during a run)
          cur,       \* the input being processed (0: none yet)
          ki,        \* how many inputs have been taken
          seen, stks, drained, pending,   \* op_tr_closure::state + what the body still has to yield
          out,       \* yielded so far: Seq of [inp, n]
          done
vars == <<succ, inputs, ins, cur, ki, seen, stks, drained, pending, out, done>>

Graphs == [Nodes -> {<<>>} \cup {<<a>> : a \in Nodes} \cup {<<a, b>> : a, b \in Nodes}]
InputSeqs == {<<a>> : a \in Nodes} \cup {<<a, b>> : a, b \in Nodes}

Init == /\ succ \in Graphs /\ inputs \in InputSeqs /\ ins = inputs /\ ki = 0
        /\ cur = 0 /\ seen = {} /\ stks = <<>> /\ drained = TRUE /\ pending = <<>> /\ out = <<>> /\ done = FALSE

\* yield_and_cache
Yield(n) == IF n \in seen THEN UNCHANGED <<seen, stks, out>>
            ELSE /\ seen' = IF MutSeen = "late" THEN seen ELSE seen \cup {n}
                 /\ stks' = Append(stks, n)
                 /\ out' = Append(out, [k |-> ki, n |-> n])

\* next_from_op: the body yields one more stack, or reports that it is drained
Drain == /\ ~done /\ ~drained
         /\ IF Len(pending) = 0
            THEN drained' = TRUE /\ UNCHANGED <<pending, seen, stks, out>>
            ELSE /\ pending' = Tail(pending) /\ UNCHANGED drained
                 /\ Yield(Head(pending))
         /\ UNCHANGED <<succ, inputs, ins, cur, ki, done>>

\* send_to_op with a non-empty work list: LIFO
Feed == /\ ~done /\ drained /\ Len(stks) > 0
        /\ LET n == stks[Len(stks)] IN
           /\ pending' = succ[n]
           /\ seen' = IF MutSeen = "late" THEN seen \cup {n} ELSE seen
        /\ stks' = SubSeq(stks, 1, Len(stks) - 1)
        /\ drained' = FALSE
        /\ UNCHANGED <<succ, inputs, ins, cur, ki, out, done>>

\* work list empty: next_from_upstream (clears `seen')
Pull == /\ ~done /\ drained /\ Len(stks) = 0 /\ Len(inputs) > 0
        /\ LET n == Head(inputs) IN
           /\ inputs' = Tail(inputs)
           /\ cur' = n /\ ki' = ki + 1
           /\ IF IsPlus
              THEN \* send_to_op (next_from_upstream): feed it, yield nothing yet
                   /\ pending' = succ[n] /\ drained' = FALSE
                   /\ seen' = IF MutSeen = "noclear" THEN seen ELSE {}
                   /\ UNCHANGED <<stks, out>>
              ELSE \* yield_and_cache of the input itself
                   /\ seen' = (IF MutSeen = "noclear" THEN seen ELSE {}) \cup (IF MutSeen = "late" THEN {} ELSE {n})
                   /\ stks' = <<n>>
                   /\ out' = IF MutSeen = "noclear" /\ n \in seen THEN out ELSE Append(out, [k |-> ki + 1, n |-> n])
                   /\ UNCHANGED <<pending, drained>>
        /\ UNCHANGED <<succ, ins, done>>

Finish == /\ ~done /\ drained /\ Len(stks) = 0 /\ Len(inputs) = 0
          /\ done' = TRUE
          /\ UNCHANGED <<succ, inputs, ins, cur, ki, seen, stks, drained, pending, out>>

Next == Drain \/ Feed \/ Pull \/ Finish
Spec == Init /\ [][Next]_vars
FairSpec == Spec /\ WF_vars(Next)

\* MEANING: reachability
RECURSIVE ReachFrom(_, _)
ReachFrom(frontier, acc) ==
    LET new == UNION {{succ[n][i] : i \in 1..Len(succ[n])} : n \in frontier} \ acc IN
    IF new = {} THEN acc ELSE ReachFrom(new, acc \cup new)
StarSet(n) == ReachFrom({n}, {n})
PlusSet(n) == LET first == {succ[n][i] : i \in 1..Len(succ[n])} IN ReachFrom(first, first)
Expected(n) == IF IsPlus THEN PlusSet(n) ELSE StarSet(n)

\* safety: never a stack twice for one input occurrence, and only reachable stacks
NoDuplicates == \A a, b \in 1..Len(out) : (a # b) => out[a] # out[b]
OnlyReachable == \A j \in 1..Len(out) : out[j].n \in Expected(ins[out[j].k])
\* when done: for every input everything reachable was yielded
Complete == done => \A k \in 1..Len(ins) : \A n \in Expected(ins[k]) : \E j \in 1..Len(out) : out[j] = [k |-> k, n |-> n]
Terminates == <>done
=============================================================================
