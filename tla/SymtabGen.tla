------------------------------ MODULE SymtabGen ------------------------------
EXTENDS Symtab, Json, SequencesExt
CONSTANTS OutFile, N
ASSUME \A t \in Tables(1) : ProducerOK(t)
ASSUME FamilyLaws
Pairs == {<<m1, m2>> \in Machines \X Machines : TRUE}
ASSUME LET ts == SetToSeq(Tables(N)) ps == SetToSeq(Pairs) IN
       ndJsonSerialize(OutFile,
         [j \in 1..Len(ts) |-> [kind |-> "table", tab |-> ts[j], ok |-> ProducerOK(ts[j])]]
         \o [j \in 1..Len(ps) |-> [kind |-> "pair", m1 |-> ps[j][1], m2 |-> ps[j][2],
                                   typeeq |-> [t \in Types |-> TypeEq(ps[j][1], t, ps[j][2], t)],
                                   bindeq |-> [b \in Binds |-> BindEq(ps[j][1], b, ps[j][2], b)]]])
=============================================================================
