------------------------------ MODULE MCLexer ------------------------------
EXTENDS Lexer
ASSUME PrintT(<<"LEXER", Cardinality(All), Cardinality(Disagree)>>)
ASSUME PrintT(<<"DISAGREE", IF Disagree = {} THEN <<>> ELSE CHOOSE w \in Disagree : \A v \in Disagree : Len(w) <= Len(v)>>)
ASSUME PrintT(<<"UNFAITHFUL", IF Unfaithful = {} THEN <<>> ELSE CHOOSE w \in Unfaithful : \A v \in Unfaithful : Len(w) <= Len(v)>>)
ASSUME PrintT(<<"WITNESSES", WitnessesOK>>)
ASSUME MechanismIsTheLanguage
ASSUME WitnessesOK
ASSUME SplicesAreSubtexts
=============================================================================
