------------------------------ MODULE MCLexer ------------------------------
EXTENDS Lexer
ASSUME PrintT(<<"LEXER", Cardinality(All), Cardinality(Disagree)>>)
ASSUME PrintT(<<"DISAGREE", IF Disagree = {} THEN <<>> ELSE CHOOSE w \in Disagree : \A v \in Disagree : Len(w) <= Len(v)>>)
ASSUME MechanismIsTheLanguage
=============================================================================
