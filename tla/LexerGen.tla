------------------------------ MODULE LexerGen ------------------------------
(* Every token sequence up to the bound with the verdict of the language    *)
(* (tla/Lexer.tla) and, for the accepted ones, the parse tree that the      *)
(* parser builds from the lexer's segmentation (tla/Tree.tla), for replay   *)
(* on the real parser.  The text of a sequence is its tokens joined by one  *)
(* space, so the literal text between two delimiters is " t1 t2 ... tk ".   *)
EXTENDS Lexer, Tree, Json, SequencesExt

CONSTANTS OutFile, Shard, NShards

\* the characters that a token contributes to the text of a literal (after escape processing)
TokText(t) == CASE t = "Q" -> "\"" [] t = "PL" -> "%(" [] t = "PR" -> "%)" [] t = "L" -> "(" [] t = "R" -> ")" [] t = "X" -> "1"
                [] t = "N" -> "\n" [] t = "BQ" -> "\"" [] t = "BS" -> "\\" [] t = "PPL" -> "%(" [] t = "PPR" -> "%)"

RECURSIVE ItemsTree(_, _, _), FmtChildren(_, _, _)
\* items from position i up to a closing parenthesis or the end: [t, i]
ItemsTree(w, i, acc) ==
    IF i > Len(w) \/ w[i] = "R" THEN [t |-> acc, i |-> i]
    ELSE CASE w[i] = "X" -> ItemsTree(w, i + 1, CreateCat("CAT", acc, Node("CONST", <<"1">>, 1, <<>>)))
           [] w[i] = "N" -> ItemsTree(w, i + 1, acc)
           [] w[i] = "L" -> LET inner == ItemsTree(w, i + 1, NIL) IN
                            ItemsTree(w, inner.i + 1, CreateCat("CAT", acc, MaybeNop(inner.t)))
           [] w[i] = "Q" -> LET s == LexStr(w, i + 1, FALSE, <<>>, <<>>) IN
                            ItemsTree(w, s.end, CreateCat("CAT", acc, Node("FORMAT", <<>>, 0, FmtChildren(s.parts, 1, <<" ">>))))
\* flush_str before every splice and at the end; literal tokens are followed by one space
FmtChildren(parts, j, cur) ==
    IF j > Len(parts) THEN <<Node("STR", cur, 0, <<>>)>>
    ELSE IF "lit" \in DOMAIN parts[j] THEN FmtChildren(parts, j + 1, cur \o (IF parts[j].lit = "BS" THEN <<TokText("BS")>> ELSE <<TokText(parts[j].lit), " ">>))
    ELSE <<Node("STR", cur, 0, <<>>), MaybeNop(ItemsTree(parts[j].body, 1, NIL).t)>> \o FmtChildren(parts, j + 1, <<" ">>)

TreeOfWord(w) == MaybeNop(ItemsTree(w, 1, NIL).t)

Mine == LET sq == SetToSeq(All) IN SelectSeq([j \in 1..Len(sq) |-> [j |-> j, w |-> sq[j]]], LAMBDA r: r.j % NShards = Shard)
Vec(w) == IF InLanguage(w) THEN [w |-> w, ok |-> TRUE, tree |-> TreeOfWord(w), stree |-> Simplify(TreeOfWord(w))]
          ELSE [w |-> w, ok |-> FALSE, lexfail |-> LexFail(w, 1)]
ASSUME MechanismIsTheLanguage
\* every sequence of the language, and one in 37 of the others
Kept == SelectSeq(Mine, LAMBDA r: InLanguage(r.w) \/ r.j % 37 = 0)
ASSUME PrintT(<<"LEXGEN", Cardinality(All), Len(Kept)>>)
\* and the witnesses beyond the bound that this alphabet can spell (shard 0)
Extra == IF Shard = 0 THEN SetToSeq({w \in Witnesses : \A i \in 1..Len(w) : w[i] \in Tok}) ELSE <<>>
ASSUME WitnessesOK
ASSUME ndJsonSerialize(OutFile, [j \in 1..Len(Kept) |-> Vec(Kept[j].w)] \o [j \in 1..Len(Extra) |-> Vec(Extra[j])])
=============================================================================
