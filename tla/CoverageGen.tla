---------------------------- MODULE CoverageGen ----------------------------
(* Replay vectors for coverage.cc: every canonical coverage over 0..N-1,   *)
(* every operation and argument, with the result the MEANING (set algebra) *)
(* demands, rendered as the canonical range vector.                        *)
EXTENDS Coverage, Json, SequencesExt

CONSTANTS OutFile, PairFile, M

RECURSIVE FlatMapCAux(_, _, _)
FlatMapCAux(F(_), s, i) == IF i > Len(s) THEN <<>> ELSE F(s[i]) \o FlatMapCAux(F, s, i + 1)
FlatMapC(F(_), s) == FlatMapCAux(F, s, 1)

Sets == SUBSET (0..(N - 1))
VecJ(v) == [i \in 1..Len(v) |-> <<v[i].s, v[i].l>>]

VecsFor(S) ==
    LET st == ToVec(S) IN
    FlatMapC(LAMBDA a:
        <<[st |-> VecJ(st), op |-> "add", s |-> a[1], l |-> a[2],
           exp |-> VecJ(ToVec(S \cup Span(a[1], a[2]))), ret |-> "-"],
          [st |-> VecJ(st), op |-> "remove", s |-> a[1], l |-> a[2],
           exp |-> VecJ(ToVec(S \ Span(a[1], a[2]))),
           ret |-> IF S \cap Span(a[1], a[2]) # {} THEN "1" ELSE "0"],
          [st |-> VecJ(st), op |-> "intersect", s |-> a[1], l |-> a[2],
           exp |-> VecJ(ToVec(S \cap Span(a[1], a[2]))), ret |-> "-"]>>
        \o (IF a[2] > 0
            THEN <<[st |-> VecJ(st), op |-> "is_covered", s |-> a[1], l |-> a[2], exp |-> VecJ(st),
                    ret |-> IF Span(a[1], a[2]) \subseteq S THEN "1" ELSE "0"],
                   [st |-> VecJ(st), op |-> "is_overlap", s |-> a[1], l |-> a[2], exp |-> VecJ(st),
                    ret |-> IF Span(a[1], a[2]) \cap S # {} THEN "1" ELSE "0"]>>
            ELSE <<>>),
        SetToSeq(Args))

\* Zwerg level: pairs of address sets over 0..M-1 and what the words must yield
SmallSets == SetToSeq(SUBSET (0..(M - 1)))
PairFor(A, B) ==
    [a |-> VecJ(ToVec(A)), b |-> VecJ(ToVec(B)),
     union |-> VecJ(ToVec(A \cup B)), diff |-> VecJ(ToVec(A \ B)), inter |-> VecJ(ToVec(A \cap B)),
     overlaps |-> (A \cap B # {}), contains |-> (B \subseteq A), eq |-> (A = B),
     empty |-> (A = {}), length |-> Cardinality(A),
     elems |-> SetToSortSeq(A, <)]
Pairs == FlatMapC(LAMBDA A: [j \in 1..Len(SmallSets) |-> PairFor(A, SmallSets[j])], SmallSets)

GenOnly == Len(vec) > 99    \* no state exploration in a generation run

ASSUME ndJsonSerialize(OutFile, FlatMapC(VecsFor, SetToSeq(Sets)))
ASSUME ndJsonSerialize(PairFile, Pairs)
=============================================================================
