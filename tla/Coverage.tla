----------------------------- MODULE Coverage -----------------------------
(***************************************************************************)
(* Address sets (coverage.cc).  MEANING: a set of addresses.  MECHANISM:   *)
(* the vector of ranges exactly as coverage stores it and add / remove /   *)
(* is_covered / is_overlap / intersect transcribed branch by branch from   *)
(* coverage.cc (same variables: r_i, p_i, to_insert, coalesce, a_end ...). *)
(*                                                                         *)
(* The transition system starts from the empty coverage and applies add    *)
(* and remove with every argument over the universe 0..N-1; TLC explores   *)
(* every reachable vector.  Invariant Canonical (sorted, disjoint,         *)
(* non-adjacent, non-empty ranges) and the refinement of each operation    *)
(* to its set meaning are checked on every transition (ghost variables     *)
(* op/arg/prev/ret record the last call).                                  *)
(*                                                                         *)
(* FixedIntersect selects the repaired intersect (clip at the query's      *)
(* end); FALSE is the behaviour of the pinned commit.                      *)
(***************************************************************************)
EXTENDS Integers, Sequences, FiniteSets, TLC

CONSTANTS N,              \* addresses 0..N-1; ranges may end at N
          FixedIntersect

Rng(s, l) == [s |-> s, l |-> l]
EndOf(r) == r.s + r.l

\* MEANING
Abs(vec) == UNION {r.s .. (r.s + r.l - 1) : r \in {vec[i] : i \in 1..Len(vec)}}
Span(s, l) == s .. (s + l - 1)

Canonical(vec) ==
    /\ \A i \in 1..Len(vec) : vec[i].l > 0
    /\ \A i \in 1..(Len(vec) - 1) : EndOf(vec[i]) < vec[i + 1].s

\* the canonical vector of a set of addresses
RECURSIVE RunsFrom(_, _, _)
RunsFrom(S, a, acc) ==
    IF a > N THEN acc
    ELSE IF a \notin S THEN RunsFrom(S, a + 1, acc)
    ELSE LET e == CHOOSE e \in a..N : (\A x \in a..e : x \in S) /\ (e + 1) \notin S
         IN RunsFrom(S, e + 2, Append(acc, Rng(a, e - a + 1)))
ToVec(S) == RunsFrom(S, 0, <<>>)

-----------------------------------------------------------------------------
(* MECHANISM *)

\* coverage::find: binary search; returns an index in 1..Len+1
RECURSIVE FindAB(_, _, _, _)
FindAB(vec, start, a, b) ==      \* a, b: 0-based as in the code
    IF ~(a < b) THEN a + 1
    ELSE LET i == (a + b) \div 2
             r == vec[i + 1]
         IN IF r.s > start THEN FindAB(vec, start, a, i)
            ELSE IF r.s < start THEN FindAB(vec, start, i + 1, b)
            ELSE i + 1
Find(vec, start) == FindAB(vec, start, 0, Len(vec))

RemoveIdx(vec, from, to) ==      \* erase [from, to)  (1-based, to exclusive)
    SubSeq(vec, 1, from - 1) \o SubSeq(vec, to, Len(vec))
InsAt(vec, idx, r) == SubSeq(vec, 1, idx - 1) \o <<r>> \o SubSeq(vec, idx, Len(vec))

\* coverage::add.  `co` is the coalesce pointer: 0 = NULL, -1 = &nr, i = &vec[i]
RECURSIVE AddLoop(_, _, _, _, _, _)
AddLoop(vec, nr, co, ins, ri, pi) ==
    LET cr == IF co = -1 THEN nr ELSE vec[co] IN
    IF pi <= Len(vec) /\ cr.s + cr.l >= vec[pi].s
    THEN LET pend == EndOf(vec[pi])
             \* coalesce->length = p_end - coalesce->start
             grown == IF pend > cr.s + cr.l THEN Rng(cr.s, pend - cr.s) ELSE cr
             nr1 == IF co = -1 THEN grown ELSE nr
             vec1 == IF co = -1 THEN vec ELSE [vec EXCEPT ![co] = grown]
         IN IF ins
            THEN \* *p_i = *to_insert; coalesce = &*p_i; ++r_i
                 AddLoop([vec1 EXCEPT ![pi] = nr1], nr1, pi, FALSE, ri + 1, pi + 1)
            ELSE AddLoop(vec1, nr1, co, FALSE, ri, pi + 1)
    ELSE [vec |-> IF pi > ri THEN RemoveIdx(vec, ri, pi) ELSE vec, ins |-> ins, ri |-> ri,
          nr |-> nr]

Add(vec, s, l) ==
    IF l = 0 THEN vec
    ELSE IF Len(vec) = 0 THEN <<Rng(s, l)>>
    ELSE LET ri == Find(vec, s)
             nr == Rng(s, l)
             \* coalesce with the previous range?
             st1 == IF ri > 1 /\ nr.s <= EndOf(vec[ri - 1])
                    THEN IF nr.s + nr.l > EndOf(vec[ri - 1])
                         THEN [vec |-> [vec EXCEPT ![ri - 1].l = nr.s + nr.l - vec[ri - 1].s],
                               co |-> ri - 1, ins |-> FALSE]
                         ELSE [vec |-> vec, co |-> 0, ins |-> FALSE]
                    ELSE [vec |-> vec, co |-> -1, ins |-> TRUE]
             \* coalesce with following ranges?
             st2 == IF st1.co # 0 /\ ri <= Len(st1.vec)
                    THEN AddLoop(st1.vec, nr, st1.co, st1.ins, ri, ri)
                    ELSE [vec |-> st1.vec, ins |-> st1.ins, ri |-> ri, nr |-> nr]
         IN IF st2.ins THEN InsAt(st2.vec, st2.ri, st2.nr) ELSE st2.vec

\* coverage::remove -> [vec, ret]
RECURSIVE RemLoop(_, _, _, _, _)
RemLoop(vec, ri, aend, eend, ov) ==
    IF ri <= Len(vec) /\ vec[ri].s < aend
    THEN IF aend >= EndOf(vec[ri])
         THEN RemLoop(vec, ri + 1, aend, eend + 1, TRUE)
         ELSE \* cut the beginning of r_i; the loop condition is then false
              RemLoop([vec EXCEPT ![ri] = Rng(aend, EndOf(vec[ri]) - aend)], ri, aend, eend, TRUE)
    ELSE [vec |-> vec, eend |-> eend, ov |-> ov]

Remove(vec, s, l) ==
    IF Len(vec) = 0 \/ l = 0 THEN [vec |-> vec, ret |-> FALSE]
    ELSE LET aend == s + l
             ri == Find(vec, s)
             \* cut from the previous range?
             pv == IF ri > 1 /\ s < EndOf(vec[ri - 1])
                   THEN LET p == vec[ri - 1]
                            rend == EndOf(p)
                        IN IF s = p.s
                           THEN [vec |-> [vec EXCEPT ![ri - 1].l = IF aend >= rend THEN 0 ELSE rend - aend],
                                 hole |-> FALSE, ov |-> TRUE]
                           ELSE IF aend < rend
                           THEN \* shoot a hole: shorten, then add the tail back, return true
                                [vec |-> Add([vec EXCEPT ![ri - 1].l = s - p.s], aend, rend - aend),
                                 hole |-> TRUE, ov |-> TRUE]
                           ELSE [vec |-> [vec EXCEPT ![ri - 1].l = s - p.s], hole |-> FALSE, ov |-> TRUE]
                   ELSE [vec |-> vec, hole |-> FALSE, ov |-> FALSE]
         IN IF pv.hole THEN [vec |-> pv.vec, ret |-> TRUE]
            ELSE LET ebeg == IF pv.ov /\ pv.vec[ri - 1].l = 0 THEN ri - 1 ELSE ri
                     lp == RemLoop(pv.vec, ri, aend, ri, pv.ov)
                 IN [vec |-> IF lp.eend > ebeg THEN RemoveIdx(lp.vec, ebeg, lp.eend) ELSE lp.vec,
                     ret |-> lp.ov]

IsCovered(vec, s, l) ==
    IF Len(vec) = 0 THEN FALSE
    ELSE LET ri == Find(vec, s)
             aend == s + l
         IN IF ri <= Len(vec) /\ s >= vec[ri].s THEN aend <= EndOf(vec[ri])
            ELSE IF ri > 1 THEN aend <= EndOf(vec[ri - 1])
            ELSE FALSE

Overlaps3(s, e, r) ==
    \/ (s >= r.s /\ s < EndOf(r))
    \/ (e > r.s /\ e <= EndOf(r))
    \/ (s < r.s /\ e > EndOf(r))

IsOverlap(vec, s, l) ==
    IF Len(vec) = 0 THEN FALSE
    ELSE IF l = 0 THEN IsCovered(vec, s, l)
    ELSE LET aend == s + l
             ri == Find(vec, s)
         IN IF ri <= Len(vec) /\ Overlaps3(s, aend, vec[ri]) THEN TRUE
            ELSE IF ri > 1 THEN Overlaps3(s, aend, vec[ri - 1])
            ELSE FALSE

RECURSIVE IntersectLoop(_, _, _, _)
IntersectLoop(vec, ri, aend, ret) ==
    IF ri <= Len(vec) /\ aend > vec[ri].s
    THEN LET bend == EndOf(vec[ri])
             m == IF bend < aend THEN bend ELSE aend
         IN IntersectLoop(vec, ri + 1, aend, Add(ret, vec[ri].s, m - vec[ri].s))
    ELSE ret

Intersect(vec, s, l) ==
    IF Len(vec) = 0 \/ l = 0 THEN <<>>
    ELSE LET ri == Find(vec, s)
             aend == s + l
             r0 == IF ri > 1 /\ s < EndOf(vec[ri - 1])
                   THEN LET jend == EndOf(vec[ri - 1])
                            upto == IF FixedIntersect /\ aend < jend THEN aend ELSE jend
                        IN Add(<<>>, s, upto - s)
                   ELSE <<>>
         IN IntersectLoop(vec, ri, aend, r0)

\* add_all / remove_all (operator+ / operator-)
RECURSIVE AddAll(_, _, _)
AddAll(vec, other, i) == IF i > Len(other) THEN vec ELSE AddAll(Add(vec, other[i].s, other[i].l), other, i + 1)
RECURSIVE RemoveAll(_, _, _)
RemoveAll(vec, other, i) ==
    IF i > Len(other) THEN vec ELSE RemoveAll(Remove(vec, other[i].s, other[i].l).vec, other, i + 1)
RECURSIVE IntersectAll(_, _, _, _)
IntersectAll(vec, other, i, acc) ==
    IF i > Len(other) THEN acc
    ELSE IntersectAll(vec, other, i + 1, AddAll(acc, Intersect(vec, other[i].s, other[i].l), 1))

-----------------------------------------------------------------------------
(* the transition system *)

VARIABLES vec, op, arg, prev, ret
vars == <<vec, op, arg, prev, ret>>

Args == {<<s, l>> \in (0..N) \X (0..N) : s + l <= N}

Init == vec = <<>> /\ op = "init" /\ arg = <<0, 0>> /\ prev = <<>> /\ ret = FALSE

DoAdd(a) == /\ vec' = Add(vec, a[1], a[2])
            /\ op' = "add" /\ arg' = a /\ prev' = vec /\ ret' = FALSE
DoRemove(a) == LET r == Remove(vec, a[1], a[2]) IN
            /\ vec' = r.vec
            /\ op' = "remove" /\ arg' = a /\ prev' = vec /\ ret' = r.ret

Next == \E a \in Args : DoAdd(a) \/ DoRemove(a)
Spec == Init /\ [][Next]_vars

\* invariants
CanonicalInv == Canonical(vec)
RefinesAdd == op = "add" => Abs(vec) = Abs(prev) \cup Span(arg[1], arg[2])
RefinesRemove == op = "remove" =>
    /\ Abs(vec) = Abs(prev) \ Span(arg[1], arg[2])
    /\ ret = (Abs(prev) \cap Span(arg[1], arg[2]) # {})
\* the queries, in every reachable state, for every argument
QueriesOK ==
    \A a \in Args :
       /\ a[2] > 0 => (IsCovered(vec, a[1], a[2]) = (Span(a[1], a[2]) \subseteq Abs(vec)))
       /\ a[2] > 0 => (IsOverlap(vec, a[1], a[2]) = (Span(a[1], a[2]) \cap Abs(vec) # {}))
IntersectOK ==
    \A a \in Args :
       LET r == Intersect(vec, a[1], a[2]) IN
       Canonical(r) /\ Abs(r) = Abs(vec) \cap Span(a[1], a[2])
\* equality of coverages is equality of sets (given canonicity)
UniqueRep == vec = ToVec(Abs(vec))
=============================================================================
