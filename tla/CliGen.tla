------------------------------- MODULE CliGen -------------------------------
EXTENDS Cli, Json, SequencesExt
CONSTANT OutFile
ASSUME QuietIsSilent /\ CountLines /\ StatusTable
ASSUME MainRefinesContract
ASSUME LET sq == SetToSeq(Configs) IN
       /\ ndJsonSerialize(OutFile, [j \in 1..Len(sq) |->
             [flags |-> SetToSeq(sq[j].flags), qc |-> sq[j].qc, files |-> sq[j].files, args |-> sq[j].args,
              exp |-> Expected(sq[j])]])
       /\ PrintT(<<"CLI", Len(sq)>>)
=============================================================================
