------------------------------- MODULE AtVal -------------------------------
(***************************************************************************)
(* How `value' / @AT_x decode an attribute (atval.cc): a decision table.   *)
(* A descriptor says what the attribute is and where it sits:              *)
(*   [at: attribute class, form, holder: tag of the DIE ("var" | "enr"),   *)
(*    ty: shape of the type chain, enc: base type encoding,                *)
(*    enrs: forms of the sibling enumerators ("none" "sdata" "udata"       *)
(*          "mixed"), vc: value class ("zero" "one" "top" "max")]          *)
(* MEANING (Documented): signedness is implied by the form (sdata / udata) *)
(* or by the encoding of the DIE's type, following typedef / cv /          *)
(* enumeration chains; pointers are addresses; otherwise it is not         *)
(* determined ("any").  MECHANISM (Code): the case analysis of             *)
(* handle_at_dependent_value for DW_AT_const_value.                        *)
(* Results: "signed" "unsigned" "bool" "address" "block" "any".            *)
(***************************************************************************)
EXTENDS Naturals, Sequences, FiniteSets, TLC

\* (a block holds 4 bytes -- "block1" -- or 1, 2, 8: the code reads a block of a plain size as the data form of that size)
Forms == {"data1", "data2", "data4", "data8", "sdata", "udata", "block1", "block1x1", "block1x2", "block1x8"}
IsBlock(f) == f \in {"block1", "block1x1", "block1x2", "block1x8"}
Holders == {"var", "enr"}
\* type chain shapes for a variable; for an enumerator the chain starts at its enumeration type
\* "deep-...": twelve typedef / const / volatile levels -- the statement says "following typedef/cv/enumeration
\* chains", of whatever length
TyShapes == {"none", "base", "typedef-base", "cv-typedef-base", "deep-typedef-base", "enum-typed", "enum-typedef-typed",
             "enum-deep-typed", "enum-untyped", "pointer", "ptrmember", "struct"}
Encs == {"signed", "unsigned", "boolean", "signed_char", "unsigned_char", "float"}
EnrForms == {"none", "sdata", "udata", "mixed"}
ValClasses == {"zero", "one", "top", "max"}

Descs == {d \in [form: Forms, holder: Holders, ty: TyShapes, enc: Encs, enrs: EnrForms, vc: ValClasses] :
            \* an enumerator lives in an enumeration type
            /\ (d.holder = "enr" => d.ty \in {"enum-typed", "enum-typedef-typed", "enum-deep-typed", "enum-untyped"})
            \* sibling enumerator forms only matter for untyped enumerations
            /\ (d.ty # "enum-untyped" => d.enrs = "none")
            \* the encoding only matters when a base type is reached
            /\ (d.ty \in {"none", "enum-untyped", "pointer", "ptrmember", "struct"} => d.enc = "signed")
            \* an enumerator in an untyped enumeration contributes its own form
            /\ (d.holder = "enr" /\ d.ty = "enum-untyped" /\ d.form = "sdata" => d.enrs \in {"sdata", "mixed"})
            /\ (d.holder = "enr" /\ d.ty = "enum-untyped" /\ d.form = "udata" => d.enrs \in {"udata", "mixed"})
            /\ (d.holder = "enr" /\ d.ty = "enum-untyped" /\ d.form \notin {"sdata", "udata"} => d.enrs \in {"none", "sdata", "udata", "mixed"})}

ByEnc(e) == CASE e \in {"signed", "signed_char"} -> "signed"
              [] e \in {"unsigned", "unsigned_char"} -> "unsigned"
              [] e = "boolean" -> "bool"
              [] e = "float" -> "any"          \* not interpreted: a block, a diagnostic or an error
ReachesBase(ty) == ty \in {"base", "typedef-base", "cv-typedef-base", "deep-typedef-base", "enum-typed", "enum-typedef-typed",
                           "enum-deep-typed"}

Documented(d) ==
    IF d.form = "sdata" THEN "signed"
    ELSE IF d.form = "udata" THEN "unsigned"
    \* a block as the value of a pointer is not interpreted (an error is reported)
    ELSE IF d.ty \in {"pointer", "ptrmember"} THEN (IF IsBlock(d.form) THEN "any" ELSE "address")
    ELSE IF ReachesBase(d.ty) THEN ByEnc(d.enc)
    \* an enumeration without underlying type: neither the form nor a type encoding decides
    ELSE "any"

\* the code
BlockLenOK(d) == TRUE     \* generated blocks have length 1, 2, 4 or 8
Code(d) ==
    IF d.form = "sdata" THEN "signed"
    ELSE IF d.form = "udata" THEN "unsigned"
    ELSE \* handle_at_dependent_value, DW_AT_const_value
         IF d.holder = "enr" /\ d.ty = "enum-untyped" THEN "unsigned"     \* "doesn't have DW_AT_type": atval_unsigned
         ELSE IF d.ty \in {"pointer", "ptrmember"} THEN (IF IsBlock(d.form) THEN "any" ELSE "address")
         ELSE IF d.ty \in {"none", "struct"} THEN "any"                   \* falls through to block / error
         ELSE IF ReachesBase(d.ty) THEN (IF d.enc = "float" THEN "any" ELSE ByEnc(d.enc))
         ELSE \* variable of an untyped enumeration: forms of its enumerators
              IF d.enrs = "sdata" THEN "signed"
              ELSE IF d.enrs = "udata" THEN "unsigned"
              ELSE "any"      \* small enough -> unsigned, else a diagnostic and signed

\* the code may be more specific than the documentation demands, never different
Agree(d) == Documented(d) = "any" \/ Code(d) = Documented(d)
AllAgree == \A d \in Descs : Agree(d)
-----------------------------------------------------------------------------
(* Attributes whose value is an enumeration of the DWARF standard (DWARF 4, 7.5.4 and the sections on  *)
(* the individual attributes): `value' must yield the named constant of that family for every           *)
(* enumerator, whatever constant form stores it.                                                        *)
EnumAttrs == <<
    [at |-> "language", code |-> 19, family |-> "DW_LANG_"],
    [at |-> "encoding", code |-> 62, family |-> "DW_ATE_"],
    [at |-> "accessibility", code |-> 50, family |-> "DW_ACCESS_"],
    [at |-> "visibility", code |-> 23, family |-> "DW_VIS_"],
    [at |-> "virtuality", code |-> 76, family |-> "DW_VIRTUALITY_"],
    [at |-> "identifier_case", code |-> 66, family |-> "DW_ID_"],
    [at |-> "calling_convention", code |-> 54, family |-> "DW_CC_"],
    [at |-> "ordering", code |-> 9, family |-> "DW_ORD_"],
    [at |-> "inline", code |-> 32, family |-> "DW_INL_"],
    [at |-> "decimal_sign", code |-> 94, family |-> "DW_DS_"],
    [at |-> "endianity", code |-> 101, family |-> "DW_END_"],
    [at |-> "defaulted", code |-> 139, family |-> "DW_DEFAULTED_"] >>
EnumForms == <<"data1", "data2", "udata">>

-----------------------------------------------------------------------------
(* Forms and classes (DWARF 5, 7.5.5 and 7.5.6; the GNU precursors of the indexed forms).  A form of the  *)
(* classes address, string, rnglist and loclist only says WHERE the datum is stored -- in the DIE, in a     *)
(* string section, or in a table of the unit reached through an index and a base attribute of the unit's   *)
(* root.  MEANING: `value' yields the datum, whatever the form (Transparent).  MECHANISM: the switch over    *)
(* dwarf_whatform in at_value (atval.cc), transcribed as the branch each form takes.                        *)
FormTable == <<
    [form |-> "addr",           class |-> "address", direct |-> "addr",      minver |-> 2],
    [form |-> "addrx",          class |-> "address", direct |-> "addr",      minver |-> 5],
    [form |-> "addrx1",         class |-> "address", direct |-> "addr",      minver |-> 5],
    [form |-> "addrx2",         class |-> "address", direct |-> "addr",      minver |-> 5],
    [form |-> "addrx3",         class |-> "address", direct |-> "addr",      minver |-> 5],
    [form |-> "addrx4",         class |-> "address", direct |-> "addr",      minver |-> 5],
    [form |-> "GNU_addr_index", class |-> "address", direct |-> "addr",      minver |-> 4],
    [form |-> "string",         class |-> "string",  direct |-> "string",    minver |-> 2],
    [form |-> "strp",           class |-> "string",  direct |-> "string",    minver |-> 2],
    [form |-> "line_strp",      class |-> "string",  direct |-> "string",    minver |-> 5],
    [form |-> "strx",           class |-> "string",  direct |-> "string",    minver |-> 5],
    [form |-> "strx1",          class |-> "string",  direct |-> "string",    minver |-> 5],
    [form |-> "strx2",          class |-> "string",  direct |-> "string",    minver |-> 5],
    [form |-> "strx3",          class |-> "string",  direct |-> "string",    minver |-> 5],
    [form |-> "strx4",          class |-> "string",  direct |-> "string",    minver |-> 5],
    [form |-> "GNU_str_index",  class |-> "string",  direct |-> "string",    minver |-> 4],
    [form |-> "rangelist",      class |-> "rnglist", direct |-> "rangelist", minver |-> 3],
    [form |-> "rnglistx",       class |-> "rnglist", direct |-> "rangelist", minver |-> 5],
    [form |-> "loclist",        class |-> "loclist", direct |-> "loclist",   minver |-> 2],
    [form |-> "loclistx",       class |-> "loclist", direct |-> "loclist",   minver |-> 5] >>
FormRows == {FormTable[i] : i \in 1..Len(FormTable)}

CONSTANT PinnedForms      \* TRUE: the switch as it was before fix 433e4b2 (self-test)
\* the branch of the switch in at_value that a form takes
Branch(f) ==
    CASE f \in {"string", "strp", "line_strp", "strx", "strx1", "strx2", "strx3", "strx4"} -> "formstring"
      [] f = "GNU_str_index" -> IF PinnedForms THEN "unhandled" ELSE "formstring"
      [] f \in {"addr", "addrx1", "addrx2", "addrx3", "addrx4"} -> "formaddr"
      [] f \in {"addrx", "GNU_addr_index"} -> IF PinnedForms THEN "unhandled" ELSE "formaddr"
      [] f \in {"rangelist", "loclist"} -> "by-attribute"      \* sec_offset / data4: handle_at_dependent_value
      [] f = "rnglistx" -> "die-ranges"
      [] f = "loclistx" -> "locexpr"
      [] OTHER -> "unhandled"
\* what a branch yields for a datum of the class (by-attribute: DW_AT_ranges gives the ranges, the location
\* attributes a location list -- Loc!LocAttrs)
Yields(b, class) ==
    CASE b = "formstring" -> IF class = "string" THEN "datum" ELSE "wrong"
      [] b = "formaddr" -> IF class = "address" THEN "datum" ELSE "wrong"
      [] b = "die-ranges" -> IF class = "rnglist" THEN "datum" ELSE "wrong"
      [] b = "locexpr" -> IF class = "loclist" THEN "datum" ELSE "wrong"
      [] b = "by-attribute" -> IF class \in {"rnglist", "loclist"} THEN "datum" ELSE "wrong"
      [] OTHER -> "error"
Transparent == \A r \in FormRows : Yields(Branch(r.form), r.class) = "datum"
DirectIsDirect == \A r \in FormRows : \E q \in FormRows : q.form = r.direct /\ q.direct = q.form /\ q.class = r.class

=============================================================================
